------------------------------ MODULE SMTWTP ------------------------------
(* Single machine total weighted tardiness.
   inst = [N, p, d, w]: jobs 1..N with integer processing time p[j], due
   date d[j] and weight w[j]; action 0 is the dummy start job of rl4co (it is
   not a job of the problem).
   PART 1 is the problem as defined independently of rl4co (the oracle);
   PART 2 is a code-shaped model of rl4co.envs.scheduling.smtwtp.SMTWTPEnv. *)
EXTENDS Util

Jobs(inst)    == 1..inst.N
Actions(inst) == 0..inst.N
InstanceOK(inst) ==
  /\ inst.N >= 1
  /\ \A j \in Jobs(inst) : inst.p[j] >= 0 /\ inst.d[j] >= 0 /\ inst.w[j] >= 0

\* total accessors (a corrupted sequence may name the dummy job: it has no data)
PT(inst, j) == IF j \in Jobs(inst) THEN inst.p[j] ELSE 0
DD(inst, j) == IF j \in Jobs(inst) THEN inst.d[j] ELSE 0
WT(inst, j) == IF j \in Jobs(inst) THEN inst.w[j] ELSE 0

(* ------------------------- PART 1: ground truth ------------------------- *)
\* a schedule of one machine without idle time is an order of the jobs
IsJobOrder(inst, pre) == (\A k \in DOMAIN pre : pre[k] \in Jobs(inst)) /\ NoDup(pre)

PrefixOK(inst, pre) == IsJobOrder(inst, pre)
Complete(inst, pre) == \A j \in Jobs(inst) : Count(pre, j) = 1
Feasible(inst, sol) == PrefixOK(inst, sol) /\ Complete(inst, sol)

\* job at position k completes when it and all its predecessors have been processed
CompletionTime(inst, sol, k) == SumSeq([i \in 1..k |-> PT(inst, sol[i])])
Tardiness(inst, sol, k) == Max(0, CompletionTime(inst, sol, k) - DD(inst, sol[k]))

\* reward units: minus the total weighted tardiness
Objective(inst, sol) ==
  0 - SumSeq([k \in DOMAIN sol |-> WT(inst, sol[k]) * Tardiness(inst, sol, k)])

Pointless(inst, pre, a) == FALSE
StepBound(inst) == inst.N
PadNeeded(inst) == FALSE           \* all rows of a batch have N jobs and finish at step N

\* C07 (SMTWTP clause): every episode is a permutation of all jobs, the dummy start
\* node is never scheduled -- checked on every prefix and on the finished episode
StepOK(inst, pre, st)   == IsJobOrder(inst, pre)
FinalOK(inst, sol, fin) == Len(sol) = inst.N /\ ToSetU(sol) = Jobs(inst)

(* ------------------- PART 2: implementation model ----------------------- *)
\* state of SMTWTPEnv: action_mask (= available jobs, dummy bit cleared in _reset),
\* current_job, current_time
Init0(inst) == [avail |-> Jobs(inst), cur |-> 0, time |-> 0]

Mask(inst, s) == s.avail                       \* the mask IS the state (scatter 0 on the chosen job)

Step(inst, s, a) ==
  [avail |-> s.avail \ {a},
   cur   |-> a,
   time  |-> s.time + PT(inst, a)]             \* td["current_time"] + job_process_time[b, a]

Done(inst, s) == s.avail = {}                  \* count_nonzero(available) <= 0

\* SMTWTPEnv._get_reward: gather by actions, cumsum of the processing times, clip the
\* lateness at 0, multiply by the gathered weights, sum, negate (running fold)
RECURSIVE WTFold(_, _, _, _)
WTFold(inst, hist, k, clock) ==
  IF k > Len(hist) THEN 0
  ELSE LET c == clock + PT(inst, hist[k])
           late == c - DD(inst, hist[k])
       IN WT(inst, hist[k]) * (IF late < 0 THEN 0 ELSE late) + WTFold(inst, hist, k + 1, c)

RewardM(inst, s, hist) == 0 - WTFold(inst, hist, 1, 0)

ConfState(inst, s, st) == st.cur = s.cur /\ st.time = s.time
PadAction(inst) == 0
=============================================================================
