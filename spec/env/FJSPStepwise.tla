---------------------------- MODULE FJSPStepwise ----------------------------
(* Step-wise reward interface of the scheduling environments: FJSPEnv / JSSPEnv
   built with stepwise_reward = True (the reward L2D's StepwisePPO consumes with
   env.get_reward(next_td, None) = td["reward"] after every step):

       _step:   lbs = calc_lower_bound(td)                       (after the clock has settled)
                td["reward"] = -(lbs.max(1) - td["lbs"].max(1));  td["lbs"] = lbs
       _reset:  td["lbs"] = calc_lower_bound(td)

   Everything of FJSP.tla is inherited (inst.jssp selects JSSPEnv).  This module
   adds the "lower bound" of rl4co/envs/scheduling/fjsp/utils.py:calc_lower_bound
   as the code computes it, and the dense interface used by the wrappers
   spec/common/DenseSolo.tla.tmpl and DenseTrace.tla.tmpl.

   UNITS.  calc_lower_bound divides by the number of eligible machines, so its
   values are multiples of 1/c, c <= M.  All bounds and rewards of this module
   are integers in units of 1/K time units, K = lcm(1..M) (DUnit).

   What the rewards TELESCOPE to (read off the code, checked by TLC and on real
   episodes):   sum of the step rewards of an episode
                  = max(lbs after reset) - max(lbs at the end)
                  = LB0(inst) - makespan
   where LB0 = max over jobs of the sum, over the job's operations, of the MEAN
   processing time over the eligible machines (nothing is scheduled and every
   machine is idle after reset) and max(lbs at the end) is the makespan because
   the bound of a scheduled operation is its finish time.  So the return of an
   episode is the terminal reward of FJSPEnv (-makespan) plus a constant of the
   instance.                                                                 *)
EXTENDS FJSP

RECURSIVE Gcd(_, _)
Gcd(a, b) == IF b = 0 THEN a ELSE Gcd(b, a % b)
RECURSIVE LcmUpTo(_)
LcmUpTo(n) == IF n <= 1 THEN 1 ELSE LET l == LcmUpTo(n - 1) IN (l * n) \div Gcd(l, n)
DUnit(inst) == LcmUpTo(inst.M)

JobOfOp(inst, o) == CHOOSE j \in JobSet(inst) : FirstOp(inst, j) < o /\ o <= FirstOp(inst, j) + inst.nops[j]
IsFirstOfJob(inst, o) == \E j \in JobSet(inst) : o = FirstOp(inst, j) + 1

(* ----------- calc_lower_bound, on any record with fields pt, busy, fin, ma -----------
   (s is a PART 2 state of FJSP.tla, or the logged tensors of the real environment)
   mode = "mean" is the code; mode = "min" replaces the mean over the eligible machines
   by the minimum (the line the code keeps as a comment) -- used only to show what
   LBNeverAboveMakespan needs.                                                      *)
OpScheduled(inst, s, o) == \E m \in MachSet(inst) : s.ma[m][o] # 0        \* td["op_scheduled"]
\* maybe_start_at = bmm(ops_adj[..., 0], finish_times): the finish time of the direct predecessor in the job --
\* which is the sentinel INIT_FINISH (9999) while the predecessor is not scheduled (quirk Sentinel: harmless as
\* long as no machine is busy beyond 9999) -- and 0 for the first operation of a job and for padded columns
MaybeStartAt(inst, s, o) ==
  IF o <= NOps(inst) /\ ~IsFirstOfJob(inst, o) THEN s.fin[o - 1] ELSE 0
WaitForMa(inst, s, m, o) == Max(s.busy[m] - MaybeStartAt(inst, s, o), 0)      \* torch.clip(busy_until - maybe_start_at, 0)
EligNow(inst, s, o) == {m \in MachSet(inst) : s.pt[m][o] > 0}                 \* proc_times.gt(0) (scheduled ops are zeroed)
\* ops_proc_times (in 1/K): mean over the eligible machines of processing time + waiting time; 0 when scheduled
\* (and 0 / 1e-9 = 0 for columns without eligible machine)
OpTimeK(inst, s, o, mode) ==
  LET el == EligNow(inst, s, o)
      f  == [m \in el |-> s.pt[m][o] + WaitForMa(inst, s, m, o)]
  IN IF OpScheduled(inst, s, o) \/ el = {} THEN 0
     ELSE IF mode = "mean" THEN (DUnit(inst) * SumSet(el, f)) \div Cardinality(el)
     ELSE DUnit(inst) * (CHOOSE v \in {f[m] : m \in el} : \A m \in el : v <= f[m])
\* lb_end_expand[j][o]: first difference of the finish times over the scheduled operations of the job,
\* ops_proc_times over the others
LbIncrK(inst, s, o, mode) ==
  IF OpScheduled(inst, s, o)
    THEN DUnit(inst) * (s.fin[o] - (IF ~IsFirstOfJob(inst, o) /\ OpScheduled(inst, s, o - 1) THEN s.fin[o - 1] ELSE 0))
    ELSE OpTimeK(inst, s, o, mode)
\* LBs = sum(job_ops_adj * lb_end_expand.cumsum(-1), dim=1): cumulative sum along the job; 0 on padded columns
LBK(inst, s, o, mode) ==
  IF o > NOps(inst) THEN 0
  ELSE LET j == JobOfOp(inst, o) IN
       SumSeq([k \in 1..(o - FirstOp(inst, j)) |-> LbIncrK(inst, s, FirstOp(inst, j) + k, mode)])
LBvec(inst, s, mode) == [o \in 1..inst.P |-> LBK(inst, s, o, mode)]
MaxLB(inst, s, mode) == MaxSeq(LBvec(inst, s, mode))                          \* lbs.max(1).values

AsState(st) == [pt |-> st.pt, busy |-> st.busy, fin |-> st.finish, ma |-> st.ma]   \* logged tensors -> record

(* ------------------------- PART 1: ground truth ------------------------- *)
\* LB0: stated on the instance alone (no state, no code): the longest job when every operation takes the mean
\* of its processing times over the machines that can process it
MeanDurK(inst, o) ==
  LET el == {m \in MachSet(inst) : Dur(inst, m, o) > 0}
  IN (DUnit(inst) * SumSet(el, [m \in el |-> Dur(inst, m, o)])) \div Cardinality(el)
LB0(inst) == MaxSeq([j \in JobSet(inst) |->
                 SumSeq([k \in 1..inst.nops[j] |-> MeanDurK(inst, OpIx(inst, j, k))])])

\* --- the dense interface (ob = [lbs |-> the vector on display], st = the logged schedule tensors) ---
\* the bound on display is calc_lower_bound of the tensors on display
DObsOK(inst, pre, st, ob) == ob.lbs = LBvec(inst, AsState(st), "mean")
\* every step reward is the decrease of the largest bound
DStepOK(inst, pre, a, r, ob0, ob1) == r = 0 - (MaxSeq(ob1.lbs) - MaxSeq(ob0.lbs))
DWant(inst, pre, a, ob0, ob1)      == 0 - (MaxSeq(ob1.lbs) - MaxSeq(ob0.lbs))
\* telescoping: after any prefix, and for the whole episode (C07: the return is LB0 - makespan)
DRunning(inst, pre, ob) == LB0(inst) - MaxSeq(ob.lbs)
DTotal(inst, sol)       == LB0(inst) + DUnit(inst) * Objective(inst, sol)
\* a finished row that is stepped on earns nothing and its bounds stay
DPadOK(inst, r, ob0, ob1) == r = 0 /\ ob1 = ob0
\* "lower bound": the largest bound on display never exceeds the makespan the episode ends with
DBoundVal(inst, ob)     == MaxSeq(ob.lbs)
DBoundLimit(inst, sol)  == 0 - DUnit(inst) * Objective(inst, sol)

(* ------------------- PART 2: implementation model ----------------------- *)
DObsM(inst, s)         == [lbs |-> LBvec(inst, s, "mean")]
DStM(inst, s)          == [pt |-> s.pt, busy |-> s.busy, finish |-> s.fin, ma |-> s.ma]   \* the tensors DObsOK looks at
DRewM(inst, s, a, s2)  == 0 - (MaxLB(inst, s2, "mean") - MaxLB(inst, s, "mean"))
DBoundValMin(inst, s)  == MaxLB(inst, s, "min")
DProjM(inst, s)        == <<s.time, LBvec(inst, s, "mean"), s.busy, s.nxt, s.done>>
=============================================================================
