------------------------------- MODULE MCP -------------------------------
(* Maximum coverage: choose exactly K of the N sets; value = total weight of
   the items that belong to at least one chosen set.
   inst = [N, M, K, mem, w]: sets 0..N-1, items 1..M, quota K,
   mem[a+1] = the row of set a: item numbers, padded with 0 (zeros may stand
   anywhere in the row), w[j] = integer weight of item j.
   PART 1 is the problem as defined independently of rl4co (the oracle);
   PART 2 is a code-shaped model of rl4co.envs.graph.mcp.env.MCPEnv.        *)
EXTENDS Util

Sets(inst)    == 0..(inst.N - 1)
Items(inst)   == 1..inst.M
Actions(inst) == Sets(inst)
Row(inst, a)  == inst.mem[a + 1]

InstanceOK(inst) ==
  /\ inst.K \in 1..inst.N
  /\ Len(inst.w) = inst.M /\ \A j \in Items(inst) : inst.w[j] >= 0
  /\ \A a \in Sets(inst) : \A k \in DOMAIN Row(inst, a) : Row(inst, a)[k] \in 0..inst.M
  \* the generator removes repeated items from every row
  /\ \A a \in Sets(inst) : \A k, l \in DOMAIN Row(inst, a) :
        (k # l /\ Row(inst, a)[k] # 0) => Row(inst, a)[k] # Row(inst, a)[l]

(* ------------------------- PART 1: ground truth ------------------------- *)
Members(inst, a) == ToSetU(Row(inst, a)) \ {0}                 \* the items of set a (0 = padding)
Covered(inst, S) == UNION {Members(inst, a) : a \in S}          \* items in at least one set of S
Value(inst, S)   == SumSet(Covered(inst, S), inst.w)

PrefixOK(inst, pre) ==
  /\ \A k \in DOMAIN pre : pre[k] \in Sets(inst)
  /\ NoDup(pre)
  /\ Len(pre) <= inst.K

Complete(inst, pre) == Cardinality(ToSetU(pre)) = inst.K
Feasible(inst, sol) == PrefixOK(inst, sol) /\ Complete(inst, sol)

\* reward units: the covered weight (maximised, positive)
Objective(inst, sol) == Value(inst, ToSetU(sol))

Pointless(inst, pre, a) == FALSE
StepBound(inst) == inst.K
\* rows of one batch share N but may carry different quotas (n_sets_to_choose is a
\* per-row tensor): a row with K < N can finish before a batch-mate
PadNeeded(inst) == inst.K < inst.N

\* C08, per step.  st = what the environment shows after `pre`:
\*   st.done  finished flag,  st.chosen  selection indicator,  st.i  counter,
\*   st.w     the "weights" feature: weight of every still uncovered item, 0 for covered ones
StepOK(inst, pre, st) ==
  /\ NoDup(pre) /\ Len(pre) <= inst.K
  /\ st.done = (Len(pre) = inst.K)
  /\ ToSetU(st.chosen) = ToSetU(pre) /\ st.i = Len(pre)
  /\ \A j \in Items(inst) :
        st.w[j] = IF j \in Covered(inst, ToSetU(pre)) THEN 0 ELSE inst.w[j]

\* C08 while a finished row is stepped on (padding): selection and remaining weights stay what the quota-sized selection implies
PadStateOK(inst, pre, st) ==
  /\ st.done /\ ToSetU(st.chosen) = ToSetU(pre)
  /\ \A j \in Items(inst) : st.w[j] = IF j \in Covered(inst, ToSetU(pre)) THEN 0 ELSE inst.w[j]

FinalOK(inst, sol, fin) == Len(sol) = inst.K /\ NoDup(sol)

(* ------------------- PART 2: implementation model ----------------------- *)
\* state of MCPEnv: chosen, i, weights (remaining), membership (remaining)
Init0(inst) == [chosen |-> {}, i |-> 0, w |-> inst.w, mem |-> inst.mem]

\* MCPEnv._step: done = td["i"] >= n_to_choose - 1 (counter before the increment), with
\* n_to_choose = n_sets_to_choose.view(-1): one flag per row, shape [B].
\* (FORMER behaviour, quirk DoneSquare: i [B] against n_sets_to_choose [B,1] broadcast to a
\* [B,B] tensor, entry (r,c) = i[c] >= n[r]-1.)
Done(inst, s) == s.i >= 1 /\ s.i >= inst.K

\* MCPEnv._step: action_mask = ~chosen | done: a finished row accepts ANY action as padding.
\* (Fix "FLP/MCP instances that reached their quota ignore further (padding) selections".
\* FORMER behaviour, quirk NoDoneGate: action_mask = ~chosen; a finished row was offered only
\* sets it had not chosen, choosing one grew `chosen` and its reward.)
Mask(inst, s) == IF Done(inst, s) THEN Sets(inst) ELSE Sets(inst) \ s.chosen

ZeroRow(r) == [k \in DOMAIN r |-> 0]

\* MCPEnv._step: finished = td["i"] >= n_to_choose (before this step) keeps `chosen`.
\* chosen_membership = chosen * td["membership"] where td["membership"] is the REMAINING
\* membership (rows of earlier choices are already zero), so only the row of a NEW choice
\* contributes (nothing at all for a finished row); its non-zero entries are the newly
\* covered items;  weights *= (1 - covered);  membership = (~chosen) * membership
Step(inst, s, a) ==
  LET ch    == IF Done(inst, s) THEN s.chosen ELSE s.chosen \cup {a}
      chmem == [k \in 1..inst.N |-> IF (k - 1) \in ch THEN s.mem[k] ELSE ZeroRow(s.mem[k])]
      cov   == UNION {ToSetU(chmem[k]) : k \in 1..inst.N} \ {0}
  IN [chosen |-> ch,
      i      |-> s.i + 1,
      w      |-> [j \in 1..inst.M |-> IF j \in cov THEN 0 ELSE s.w[j]],
      mem    |-> [k \in 1..inst.N |-> IF (k - 1) \in ch THEN ZeroRow(s.mem[k]) ELSE s.mem[k]]]

\* MCPEnv._get_reward: QUIRK RewardFromState: from td["chosen"] with orig_membership /
\* orig_weights; `actions` is ignored (harmless now that padding leaves `chosen` alone)
RewardM(inst, s, hist) ==
  SumSet(UNION {ToSetU(inst.mem[a + 1]) : a \in s.chosen} \ {0}, inst.w)

ConfState(inst, s, st) ==
  /\ st.i = s.i
  /\ ToSetU(st.chosen) = s.chosen
  /\ st.w = s.w
  /\ st.mem = s.mem

PadAction(inst) == 0
=============================================================================
