------------------------------- MODULE MPDP -------------------------------
(* Multi-agent pickup and delivery with one depot (min-max or min-sum).
   inst = [N, H, A, D, obj, forced]:
     H pickup/delivery pairs, A agents that all live at the one depot and drive ONE AFTER THE OTHER;
     D = integer distance matrix over the 2H+1 POINTS of the problem (point 0 the depot, points
     1..H the pickups, point p+H the delivery of pickup p), read with Dist;
     obj = "minmax" (longest agent tour) | "minsum" (sum of the agent tours);
     N = 2H + A = the highest action id.
   Action ids (the node numbering of the environment, NM = 2H+A+1 nodes):
     0              start marker: "agent 1 leaves the depot" (a copy of the depot)
     k in 1..A      return marker of agent k: "agent k is back at the depot; agent k+1 (if there is
                    one) leaves" (A more copies of the depot)
     A+1 .. A+H     pickups,   A+H+1 .. A+2H  deliveries (delivery of pickup v is v+H)
   A solution is  [0] tour_1 1 tour_2 2 ... tour_A A .
   forced = TRUE : the harness has already played the start marker 0 (as the reference implementation
                   of the method does; the public mask of rl4co never offers it): sequences do not
                   list it and Init0 is the state after it.
   forced = FALSE: sequences are what the environment's own mask admits from reset on.
   PART 1 is the problem as defined independently of rl4co (the oracle);
   PART 2 is a code-shaped model of rl4co.envs.routing.mpdp.MPDPEnv.           *)
EXTENDS Util

NM(inst)      == 2 * inst.H + inst.A + 1
Markers(inst) == 1..inst.A
Picks(inst)   == (inst.A + 1)..(inst.A + inst.H)
Delivs(inst)  == (inst.A + inst.H + 1)..(inst.A + 2 * inst.H)
Custs(inst)   == Picks(inst) \cup Delivs(inst)
Actions(inst) == IF inst.forced THEN 1..(NM(inst) - 1) ELSE 0..(NM(inst) - 1)
Loc(inst, v)  == IF v <= inst.A THEN 0 ELSE v - inst.A         \* the point an action id stands on

InstanceOK(inst) == /\ inst.H >= 1 /\ inst.A >= 1 /\ inst.N = NM(inst) - 1
                    /\ Len(inst.D) = 2 * inst.H + 1
                    /\ inst.obj \in {"minmax", "minsum"} /\ inst.forced \in BOOLEAN

(* ------------------------- PART 1: ground truth ------------------------- *)
Occ(pre, x) == {k \in DOMAIN pre : pre[k] = x}
MarkPos(inst, pre) == {k \in DOMAIN pre : pre[k] \in Markers(inst)}
\* the agent that is on the road when position k is played (for a return marker: the agent that returns)
AgentAt(inst, pre, k) == 1 + Cardinality({j \in MarkPos(inst, pre) : j < k})

PrefixOK(inst, pre) ==
  /\ \A k \in DOMAIN pre : pre[k] \in Actions(inst)
  /\ \A k \in DOMAIN pre : pre[k] = 0 => k = 1                       \* the start marker can only open the sequence
  /\ \A c \in Custs(inst) : Cardinality(Occ(pre, c)) <= 1            \* every location at most once
  \* agents return in their order, each once: the g-th return is the one of agent g (at most A returns)
  /\ \A k \in MarkPos(inst, pre) : pre[k] = AgentAt(inst, pre, k)
  \* every customer is served by one of the A agents
  /\ \A k \in DOMAIN pre : pre[k] \in Custs(inst) => AgentAt(inst, pre, k) <= inst.A
  \* a delivery is made after its pickup, by the agent that picked it up
  /\ \A k \in DOMAIN pre : pre[k] \in Delivs(inst) =>
        \E j \in 1..(k - 1) : pre[j] = pre[k] - inst.H /\ AgentAt(inst, pre, j) = AgentAt(inst, pre, k)
  \* nobody returns to the depot with goods on board
  /\ \A k \in MarkPos(inst, pre) : \A j \in 1..(k - 1) :
        (pre[j] \in Picks(inst) /\ AgentAt(inst, pre, j) = AgentAt(inst, pre, k))
           => \E m \in (j + 1)..(k - 1) : pre[m] = pre[j] + inst.H

\* everything served and every agent back home
Complete(inst, pre) == /\ \A c \in Custs(inst)   : Occ(pre, c) # {}
                       /\ \A g \in Markers(inst) : Occ(pre, g) # {}
Feasible(inst, sol) == PrefixOK(inst, sol) /\ Complete(inst, sol)

\* points visited by agent g, in order
RECURSIVE TourFrom(_, _, _, _)
TourFrom(inst, pre, g, k) ==
  IF k > Len(pre) THEN <<>>
  ELSE (IF pre[k] \in Custs(inst) /\ AgentAt(inst, pre, k) = g THEN <<Loc(inst, pre[k])>> ELSE <<>>)
       \o TourFrom(inst, pre, g, k + 1)
TourLen(inst, pre, g)  == CycleLen(inst.D, <<0>> \o TourFrom(inst, pre, g, 1))    \* depot -> ... -> depot; idle agent 0
TourLens(inst, pre)    == [g \in 1..inst.A |-> TourLen(inst, pre, g)]

Objective(inst, sol) == IF inst.obj = "minmax" THEN 0 - MaxSeq(TourLens(inst, sol))
                        ELSE 0 - SumSeq(TourLens(inst, sol))

\* documented (docstring of MPDPEnv, "the tour starts and ends at the depot"; the reference implementation offers
\* nothing else at the first step): a listed solution opens with the start marker.  PrefixOK itself does not insist
\* on the marker (agent 1 stands at the depot anyway), so an episode is not infeasible merely for omitting it.
Pointless(inst, pre, a) == ~inst.forced /\ pre = <<>> /\ a # 0
StepBound(inst) == IF inst.forced THEN NM(inst) - 1 ELSE NM(inst)     \* every node (marker or customer) once
PadNeeded(inst) == FALSE       \* the agent count is a property of the batch (tensor width): all rows take NM steps
StepOK(inst, pre, st)   == TRUE
FinalOK(inst, sol, fin) == TRUE

(* ------------------- PART 2: implementation model ----------------------- *)
AG(inst) == inst.A            \* agent_num = td["lengths"].size(1)
DP(inst, u, v) == Dist(inst.D, Loc(inst, u), Loc(inst, v))
Vec(inst, f(_)) == [k \in 1..NM(inst) |-> f(k - 1)]
RECURSIVE MaxOver(_, _, _)
MaxOver(vec, lo, hi) == IF lo > hi THEN 0 ELSE Max(vec[lo], MaxOver(vec, lo + 1, hi))   \* (all entries >= 0)

\* quirk DepotDistancePickup (_reset): the comment says the DELIVERY entries get depot->pickup + pickup->delivery;
\* the code adds depot->delivery to the PICKUP entries instead
DepotDist0(inst) ==
  Vec(inst, LAMBDA v : IF v \in Picks(inst) THEN DP(inst, 0, v) + DP(inst, 0, v + inst.H) ELSE DP(inst, 0, v))

\* quirk AddPdNoop (_step): `td["add_pd_distance"][rows, :].scatter_(..., 0)` and
\* `td["longest_lengths"][rows, :].scatter_add_(...)` work on COPIES (boolean-mask indexing): add_pd_distance keeps
\* its reset value (so remain_sum_paired_distance is constant) and longest_lengths stays all zero for ever.
SumPaired(inst) == SumSeq([p \in 1..inst.H |-> Dist(inst.D, p, p + inst.H)])

\* quirk FirstMaskInverted (get_action_mask, branch i == 0): the reference implementation returns a mask in which
\* 1 means FORBIDDEN (only node 0 allowed); rl4co kept the tensor but its masks mean 1 = ALLOWED: at the first step
\* everything EXCEPT node 0 is offered -- deliveries and the return markers of all agents included -- and node 0 is
\* never offered later either (depot columns are closed from step 1 on, only column agent_idx is reopened).
\* (With the comparison of that branch corrected -- `== 0` instead of `> 0` -- this operator becomes {0} and the
\* instances with forced = FALSE run clean: checked in a scratch worktree.)
FirstMask(inst) == 1..(NM(inst) - 1)

\* quirk NeverDone: done = visited.all() over ALL nodes including node 0; together with FirstMaskInverted no
\* mask-confined episode ever finishes (visited[0] stays 0).
Reset(inst) ==
  [vis |-> {}, todel |-> 0..(inst.A + inst.H), cd |-> 0, ai |-> 1, cur |-> 0, i |-> 0,
   len |-> [k \in 1..inst.A |-> 0], ll |-> [k \in 1..inst.A |-> 0], left |-> inst.H,
   dd |-> DepotDist0(inst),
   \* quirk RemainMaxAtReset: at reset the two maxima are taken from the plain depot distances (BEFORE the pickup
   \* entries are enlarged), from the first step on from depot_distance
   rp |-> MaxOver(Vec(inst, LAMBDA v : DP(inst, 0, v)), 1, inst.A + 1 + inst.H),
   rd |-> MaxOver(Vec(inst, LAMBDA v : DP(inst, 0, v)), inst.A + inst.H + 2, NM(inst)),
   rs |-> SumPaired(inst),
   mask |-> FirstMask(inst), done |-> FALSE]

\* get_action_mask, branch i != 0
MaskOf(inst, vis, todel, cd, ai) ==
  LET cust   == {v \in Custs(inst) : v \notin vis /\ v \in todel}          \* mask_loc = visited | ~to_delivery
      \* "if deliver nodes which is assigned agent is complete, then agent can go to depot"
      noitem == \A d \in Delivs(inst) : (d \in vis) <=> (d \in todel)
      \* quirk ReturnIgnoresVisited: column agent_idx is reopened whether or not that marker was already used
      dep    == IF noitem THEN {ai} ELSE {}
      \* the last agent stays out while customers are unserved (closes column agent_num)
      cond   == cd = AG(inst) - 1 /\ \E v \in Custs(inst) : v \notin vis
  IN cust \cup (IF cond THEN dep \ {AG(inst)} ELSE dep)

Step(inst, s, a) ==
  LET pair  == (a + inst.H) % NM(inst)                      \* "the pair node of selected node", for EVERY action
      isreq == a > AG(inst) /\ a <= AG(inst) + inst.H
      dd    == [s.dd EXCEPT ![a + 1] = 0]
      len   == [s.len EXCEPT ![s.cd + 1] = @ + DP(inst, s.cur, a)]    \* charged to the agent driving BEFORE the switch
      cd    == IF a = s.ai /\ s.ai < AG(inst) THEN s.cd + 1 ELSE s.cd
      vis   == s.vis \cup {a}
      todel == s.todel \cup {pair}
  IN [vis |-> vis, todel |-> todel, cd |-> cd, ai |-> cd + 1, cur |-> a, i |-> s.i + 1,
      len |-> len, ll |-> s.ll, left |-> s.left - (IF isreq THEN 1 ELSE 0),
      dd |-> dd,
      rp |-> MaxOver(dd, 1, AG(inst) + 1 + inst.H),
      rd |-> MaxOver(dd, AG(inst) + inst.H + 2, NM(inst)),
      rs |-> s.rs,
      mask |-> MaskOf(inst, vis, todel, cd, cd + 1),
      done |-> vis = 0..(NM(inst) - 1)]

Init0(inst) == IF inst.forced THEN Step(inst, Reset(inst), 0) ELSE Reset(inst)

\* exploration horizon of the MODEL only: behaviours that never finish (quirk NeverDone) would make the history
\* grow for ever; the real expansion is cut two steps earlier (adapter.step_cap), so no recorded trace gets here
Horizon(inst) == NM(inst) + 2
Mask(inst, s) == IF s.i > Horizon(inst) THEN {} ELSE s.mask
Done(inst, s) == s.done

\* _get_reward: from td["lengths"] only
RewardM(inst, s, hist) == IF inst.obj = "minmax" THEN 0 - MaxSeq(s.len) ELSE 0 - SumSeq(s.len)

ConfState(inst, s, st) ==
  /\ ToSetU(st.vis) = s.vis /\ ToSetU(st.todel) = s.todel
  /\ st.cd = s.cd /\ st.ai = s.ai /\ st.i = s.i /\ st.left = s.left
  /\ st.cur = Loc(inst, s.cur)
  /\ st.len = s.len /\ st.ll = s.ll
  /\ st.dd = s.dd /\ st.rp = s.rp /\ st.rd = s.rd /\ st.rs = s.rs

PadAction(inst) == inst.A
=============================================================================
