------------------------------- MODULE FJSP -------------------------------
(* Flexible job-shop scheduling (and, with inst.jssp = TRUE, the job-shop
   special case handled by JSSPEnv, a subclass of FJSPEnv).

   inst = [J, M, P, nops, pt, wait, jssp]
     J jobs 1..J, M machines 1..M; job j consists of nops[j] >= 1 operations
     that must run in order.  Operations are numbered consecutively job after
     job ("flat" numbering, 1..NOps); the tensors of the environment have P >=
     NOps columns, columns NOps+1..P are padding.  pt[m][o] is the processing
     time of flat operation o on machine m, 0 = machine m cannot process o.
     wait = TRUE  <=> the environment is built with mask_no_ops = False (the
     agent may choose to wait); jssp = TRUE <=> JSSPEnv (an action names a job
     only, every operation has exactly one eligible machine).

   Actions.  0 = wait.  FJSP: a >= 1 names (job, machine) = ((a-1) div M + 1,
   (a-1) mod M + 1).  JSSP: a >= 1 names job a.

   PART 1 is the scheduling problem and the meaning of an action sequence as a
   dispatching rule, written on SETS of scheduled operations (no flags, no
   tensors).  Which ground truth decides what:
     C07  FinalOK  -- a predicate on the FINAL TENSORS alone (start, finish,
                      machine assignment, reported makespan); it does not look
                      at the action sequence at all.
          StepOK   -- the same predicate in its prefix form on the tensors
                      shown after every step.
     C03  Objective -- has_truth = TRUE: the makespan is recomputed from the
                      instance and the action sequence alone by the dispatching
                      rule below (Run), independently of PART 2.
   PART 2 is a code-shaped model of rl4co.envs.scheduling.fjsp.env.FJSPEnv /
   jssp.env.JSSPEnv (flags, lazily released jobs, zeroed proc_times ...).    *)
EXTENDS Util

JobSet(inst)  == 1..inst.J
MachSet(inst) == 1..inst.M
NOps(inst)    == SumSeq(inst.nops)
FirstOp(inst, j) == SumSeq(SubSeq(inst.nops, 1, j - 1))     \* number of operations before job j
OpIx(inst, j, k) == FirstOp(inst, j) + k                    \* flat (1-based) number of the k-th operation of job j
Dur(inst, m, o)  == inst.pt[m][o]

Actions(inst) == IF inst.jssp THEN 0..inst.J ELSE 0..(inst.J * inst.M)
ActJob(inst, a) == IF inst.jssp THEN a ELSE ((a - 1) \div inst.M) + 1
\* machine named by the action (JSSP: the one machine that can process operation o)
ActMach(inst, a, o) == IF inst.jssp THEN CHOOSE m \in MachSet(inst) : Dur(inst, m, o) > 0
                       ELSE ((a - 1) % inst.M) + 1

InstanceOK(inst) ==
  /\ inst.J >= 1 /\ inst.M >= 1 /\ NOps(inst) <= inst.P
  /\ \A j \in JobSet(inst) : inst.nops[j] >= 1
  /\ \A o \in 1..NOps(inst) :
        LET el == {m \in MachSet(inst) : Dur(inst, m, o) > 0}
        IN IF inst.jssp THEN Cardinality(el) = 1 ELSE el # {}
\* nothing is demanded of the padded columns NOps+1..P: FJSPGenerator clears them,
\* JSSPGenerator leaves random processing times there; the problem never looks at them

(* ------------------------- PART 1: ground truth ------------------------- *)
(* ---- 1a. what a valid schedule is (C07), on explicit per-operation data ----
   sch = [start, finish, ma]: start[o], finish[o] for every column o in 1..P,
   ma[m][o] = 1 iff operation o is assigned to machine m.                    *)
MachsOf(inst, sch, o) == {m \in MachSet(inst) : sch.ma[m][o] # 0}
Placed(inst, sch)     == {o \in 1..inst.P : MachsOf(inst, sch, o) # {}}
OnMach(inst, sch, o)  == CHOOSE m \in MachSet(inst) : sch.ma[m][o] # 0

\* one placed operation is placed properly: one machine, eligible, exact duration
OpOK(inst, sch, o) ==
  /\ o <= NOps(inst)                                          \* padding is never scheduled
  /\ Cardinality(MachsOf(inst, sch, o)) = 1
  /\ Dur(inst, OnMach(inst, sch, o), o) > 0
  /\ sch.start[o] >= 0
  /\ sch.finish[o] - sch.start[o] = Dur(inst, OnMach(inst, sch, o), o)

\* operations of a job in order and without overlap: the placed operations of a job are
\* an initial piece of the job and each starts no earlier than its predecessor ends
JobOrderOK(inst, sch) ==
  \A j \in JobSet(inst) : \A k \in 2..inst.nops[j] :
     OpIx(inst, j, k) \in Placed(inst, sch) =>
        /\ OpIx(inst, j, k - 1) \in Placed(inst, sch)
        /\ sch.finish[OpIx(inst, j, k - 1)] <= sch.start[OpIx(inst, j, k)]

\* no machine processes two operations at the same time
MachExclOK(inst, sch) ==
  \A o1, o2 \in Placed(inst, sch) :
     (o1 < o2 /\ MachsOf(inst, sch, o1) \cap MachsOf(inst, sch, o2) # {}) =>
        (sch.finish[o1] <= sch.start[o2] \/ sch.finish[o2] <= sch.start[o1])

PartialScheduleOK(inst, sch) ==
  /\ \A o \in Placed(inst, sch) : OpOK(inst, sch, o)
  /\ JobOrderOK(inst, sch)
  /\ MachExclOK(inst, sch)

ValidSchedule(inst, sch) ==
  /\ Placed(inst, sch) = 1..NOps(inst)                        \* every operation, exactly once (OpOK: one machine)
  /\ PartialScheduleOK(inst, sch)

Makespan(inst, sch) == MaxSeq([o \in 1..NOps(inst) |-> sch.finish[o]])

\* C07 on the final tensors; fin.makespan is what the environment reports (= -reward)
FinalOK(inst, sol, fin) == ValidSchedule(inst, fin) /\ fin.makespan = Makespan(inst, fin)

\* number of dispatching (non-wait) actions in a prefix
NDispatch(pre) == Cardinality({i \in DOMAIN pre : pre[i] # 0})

\* C07, prefix form: what is on display after `pre` is a valid partial schedule and
\* every dispatching step has placed exactly one more operation
StepOK(inst, pre, st) ==
  /\ PartialScheduleOK(inst, st)
  /\ Cardinality(Placed(inst, st)) = NDispatch(pre)

(* ---- 1b. what an action sequence means (dispatching rule; C03 / C05) ----
   The agent dispatches at a clock t.  A set S of entries [o, j, m, s, e] records
   which operation of which job runs on which machine from s to e.
   - dispatch (j, m): the next not yet started operation of job j starts NOW on
     machine m; legal iff job j has operations left, none of its operations is
     still running, machine m is not running anything, and m can process it;
   - wait: the clock moves to the next completion; legal iff something is running;
   - environments built WITHOUT the wait action (inst.wait = FALSE) move the clock
     by themselves to the next completion whenever nothing can be dispatched.     *)
Running(S, t) == {x \in S : x.e > t}
Started(S, j) == Cardinality({x \in S : x.j = j})

CanStart(inst, S, t, j, m) ==
  /\ Started(S, j) < inst.nops[j]
  /\ \A x \in Running(S, t) : x.j # j /\ x.m # m
  /\ Dur(inst, m, OpIx(inst, j, Started(S, j) + 1)) > 0

NothingToStart(inst, S, t) ==
  \A j \in JobSet(inst), m \in MachSet(inst) : ~CanStart(inst, S, t, j, m)

NextCompletion(S, t) ==
  CHOOSE e \in {x.e : x \in Running(S, t)} : \A x \in Running(S, t) : e <= x.e

RECURSIVE Settle(_, _, _)
Settle(inst, S, t) ==
  IF ~inst.wait /\ Running(S, t) # {} /\ NothingToStart(inst, S, t)
    THEN Settle(inst, S, NextCompletion(S, t)) ELSE t

AllFinished(inst, S, t) == Cardinality(S) = NOps(inst) /\ Running(S, t) = {}

RECURSIVE Run(_, _)
Run(inst, pre) ==
  IF pre = <<>> THEN [t |-> 0, S |-> {}, ok |-> TRUE]
  ELSE LET r == Run(inst, Front(pre))
           a == Last(pre)
           bad == [r EXCEPT !.ok = FALSE]
       IN IF ~r.ok \/ a \notin Actions(inst) THEN bad
          ELSE IF a = 0
            THEN IF Running(r.S, r.t) = {} THEN bad
                 ELSE [r EXCEPT !.t = Settle(inst, r.S, NextCompletion(r.S, r.t))]
          ELSE LET j == ActJob(inst, a) IN
               IF Started(r.S, j) >= inst.nops[j] THEN bad
               ELSE LET o == OpIx(inst, j, Started(r.S, j) + 1)
                        m == ActMach(inst, a, o)
                    IN IF ~CanStart(inst, r.S, r.t, j, m) THEN bad
                       ELSE LET S2 == r.S \cup {[o |-> o, j |-> j, m |-> m, s |-> r.t,
                                                 e |-> r.t + Dur(inst, m, o)]}
                            IN [t |-> Settle(inst, S2, r.t), S |-> S2, ok |-> TRUE]

PrefixOK(inst, pre) == Run(inst, pre).ok
Complete(inst, pre) == LET r == Run(inst, pre) IN r.ok /\ AllFinished(inst, r.S, r.t)
Feasible(inst, sol) == Complete(inst, sol)

\* reward units: minus the latest completion of the schedule the sequence dispatches
Objective(inst, sol) == LET r == Run(inst, sol) IN
  IF r.S = {} THEN 0 ELSE 0 - (CHOOSE e \in {x.e : x \in r.S} : \A x \in r.S : x.e <= e)

\* documented pruning: mask_no_ops = True removes the wait action
Pointless(inst, pre, a) == a = 0 /\ ~inst.wait

\* one step per operation plus one per wait; a wait moves the clock to the completion of
\* a different operation every time, so there are at most NOps waits (none without wait)
StepBound(inst) == NOps(inst) + (IF inst.wait THEN NOps(inst) ELSE 0)
PadNeeded(inst) == TRUE            \* rows of a batch finish at different steps

(* ------------------- PART 2: implementation model ----------------------- *)
INITFIN == 9999                    \* fjsp/__init__.py INIT_FINISH
INF     == 1000000                 \* torch.inf in _transit_to_next_time

StartOp(inst, j) == FirstOp(inst, j)                          \* start_op_per_job (0-based ids)
EndOp(inst, j)   == FirstOp(inst, j) + inst.nops[j] - 1       \* end_op_per_job
IsPad(inst, o)   == o > NOps(inst)                            \* pad_mask (o 1-based column)

\* FJSPEnv._reset
Init0(inst) ==
  [time   |-> 0,
   busy   |-> [m \in MachSet(inst) |-> 0],
   nxt    |-> [j \in JobSet(inst) |-> StartOp(inst, j)],
   inproc |-> [j \in JobSet(inst) |-> FALSE],
   jdone  |-> [j \in JobSet(inst) |-> FALSE],
   done   |-> FALSE,
   start  |-> [o \in 1..inst.P |-> 0],
   fin    |-> [o \in 1..inst.P |-> INITFIN],
   ma     |-> [m \in MachSet(inst) |-> [o \in 1..inst.P |-> 0]],
   pt     |-> inst.pt]                                         \* td["proc_times"], zeroed per scheduled op

\* _get_job_machine_availability (negated: TRUE = pair can be chosen)
PairFree(inst, s, j, m) ==
  /\ ~s.jdone[j]
  /\ ~s.inproc[j]
  /\ ~(s.busy[m] > s.time)
  /\ s.pt[m][s.nxt[j] + 1] # 0

\* get_action_mask: the no-op bit
NoOpBit(inst, s) ==
  IF ~inst.wait THEN s.done                                    \* mask_no_ops = True
  ELSE ((\E j \in JobSet(inst) : s.inproc[j]) /\ ~s.done) \/ s.done

\* FJSP: "bs j m -> bs (j m)";  JSSP: reduce(masked, "bs j m -> bs j", "all")
Mask(inst, s) ==
  (IF NoOpBit(inst, s) THEN {0} ELSE {})
  \cup (IF inst.jssp
          THEN {j \in JobSet(inst) : \E m \in MachSet(inst) : PairFree(inst, s, j, m)}
          ELSE {1 + (p[1] - 1) * inst.M + (p[2] - 1) : p \in
                   {q \in JobSet(inst) \X MachSet(inst) : PairFree(inst, s, q[1], q[2])}})

\* _transit_to_next_time (for a row whose step_complete / no_op flag is set)
AvailTime(inst, s) ==
  LET fut == {s.busy[m] : m \in {mm \in MachSet(inst) : s.busy[mm] > s.time}}
  IN IF fut = {} THEN INF ELSE CHOOSE v \in fut : \A w \in fut : v <= w

Transit(inst, s) ==
  LET t2     == AvailTime(inst, s)
      opfin  == [j \in JobSet(inst) |-> s.inproc[j] /\ s.fin[s.nxt[j] + 1] <= t2]
      jobfin == [j \in JobSet(inst) |-> opfin[j] /\ s.nxt[j] = EndOp(inst, j)]
      jd     == [j \in JobSet(inst) |-> s.jdone[j] \/ jobfin[j]]
  IN [s EXCEPT !.time   = t2,
               !.nxt    = [j \in JobSet(inst) |-> IF opfin[j] /\ ~jobfin[j] THEN s.nxt[j] + 1 ELSE s.nxt[j]],
               !.inproc = [j \in JobSet(inst) |-> s.inproc[j] /\ ~opfin[j]],   \* released only when finished
               !.jdone  = jd,
               !.done   = \A j \in JobSet(inst) : jd[j]]

\* _translate_action (after `action - 1`)
SelJob(inst, a) == IF inst.jssp THEN a ELSE ((a - 1) \div inst.M) + 1
SelMach(inst, s, a, op) ==
  IF inst.jssp THEN CHOOSE m \in MachSet(inst) : s.pt[m][op + 1] > 0     \* ops_ma_adj[:, op].nonzero()
  ELSE ((a - 1) % inst.M) + 1

\* _make_step
MakeStep(inst, s, a) ==
  LET j  == SelJob(inst, a)
      op == s.nxt[j]
      m  == SelMach(inst, s, a, op)
      p  == s.pt[m][op + 1]
  IN [s EXCEPT !.inproc[j] = TRUE,
               !.start[op + 1] = s.time,
               !.fin[op + 1]   = s.time + p,
               !.ma[m][op + 1] = 1,
               !.busy[m]       = s.time + p,
               !.pt = [mm \in MachSet(inst) |-> [o \in 1..inst.P |-> IF o = op + 1 THEN 0 ELSE s.pt[mm][o]]]]

\* the `while step_complete.any()` loop of _step: the clock moves on while nothing is offered
RECURSIVE AutoAdvance(_, _)
AutoAdvance(inst, s) ==
  IF Mask(inst, s) = {} /\ ~s.done /\ s.time < INF THEN AutoAdvance(inst, Transit(inst, s)) ELSE s

\* _step: finished rows are neither no_op nor req_op
Step(inst, s, a) ==
  IF s.done THEN s
  ELSE IF a = 0 THEN AutoAdvance(inst, Transit(inst, s))
  ELSE AutoAdvance(inst, MakeStep(inst, s, a))

Done(inst, s) == s.done

\* _get_reward: -max of finish_times with padded columns masked out
RewardM(inst, s, hist) == 0 - MaxSeq([o \in 1..NOps(inst) |-> s.fin[o]])

ConfState(inst, s, st) ==
  /\ st.time = s.time /\ st.busy = s.busy /\ st.nxt = s.nxt
  /\ st.inproc = s.inproc /\ st.jdone = s.jdone
  /\ st.start = s.start /\ st.finish = s.fin /\ st.ma = s.ma /\ st.pt = s.pt

PadAction(inst) == 0
=============================================================================
