------------------------------ MODULE TSPBatch ------------------------------
(* C04 at model level for a batch-GLOBAL read: TSPEnv._step decides whether the current action
   becomes `first_node` with `td["i"].all() == 0`, an expression over the WHOLE batch (it is true
   iff some row of the batch still has step counter 0).  This module steps R rows of (possibly
   different) TSP instances of the same size at once, each row choosing its own mask-admitted
   action, with the shared read modelled as the code performs it, and checks that every row's
   state equals the state of its solo run (TSP!Step applied to its own history).
   TLC shows the shared read is harmless because all rows share the step counter.            *)
EXTENDS TSP, TLC
CONSTANTS R, NN            \* rows, nodes
VARIABLES s, hist
vars == <<s, hist>>
Rows == 1..R
I == [N |-> NN, id |-> 1]      \* only N matters for the state machine (distances do not influence it)
Init == s = [r \in Rows |-> Init0(I)] /\ hist = [r \in Rows |-> <<>>]
SomeRowAtZero == \E r \in Rows : s[r].i = 0        \* td["i"].all() == 0
BatchStep(a) == [r \in Rows |->
   [avail |-> s[r].avail \ {a[r]}, cur |-> a[r],
    first |-> IF SomeRowAtZero THEN a[r] ELSE s[r].first,
    i |-> s[r].i + 1]]
Next == /\ \E r \in Rows : ~Done(I, s[r])
        /\ \E a \in [Rows -> 0..(NN - 1)] :
              /\ \A r \in Rows : a[r] \in Mask(I, s[r])
              /\ s' = BatchStep(a)
              /\ hist' = [r \in Rows |-> Append(hist[r], a[r])]
Spec == Init /\ [][Next]_vars
RECURSIVE SoloRun(_, _)
SoloRun(st, h) == IF h = <<>> THEN st ELSE SoloRun(Step(I, st, Head(h)), Tail(h))
RowIsSolo == \A r \in Rows : s[r] = SoloRun(Init0(I), hist[r])
AllFinishTogether == (\E r \in Rows : Done(I, s[r])) => \A r \in Rows : Done(I, s[r])
=============================================================================
