------------------------------- MODULE TSP -------------------------------
(* Travelling salesman.  inst = [N, D]: nodes 0..N-1 (no depot), integer
   distance matrix D.  PART 1 problem definition, PART 2 model of
   rl4co.envs.routing.tsp.TSPEnv.                                           *)
EXTENDS Util

Actions(inst) == 0..(inst.N - 1)
InstanceOK(inst) == inst.N >= 2

(* ------------------------- PART 1: ground truth ------------------------- *)
PrefixOK(inst, pre) == (\A k \in DOMAIN pre : pre[k] \in Actions(inst)) /\ NoDup(pre)
Complete(inst, pre) == \A j \in Actions(inst) : Count(pre, j) = 1
Feasible(inst, sol) == PrefixOK(inst, sol) /\ Complete(inst, sol)
Objective(inst, sol) == 0 - CycleLen(inst.D, sol)
Pointless(inst, pre, a) == FALSE
StepBound(inst) == inst.N
PadNeeded(inst) == FALSE           \* all rows of a batch have N nodes and finish at step N
StepOK(inst, pre, st)   == TRUE
FinalOK(inst, sol, fin) == TRUE

(* ------------------- PART 2: implementation model ----------------------- *)
Init0(inst) == [avail |-> Actions(inst), cur |-> 0, first |-> 0, i |-> 0]
Mask(inst, s) == s.avail
Step(inst, s, a) ==
  [avail |-> s.avail \ {a}, cur |-> a,
   first |-> IF s.i = 0 THEN a ELSE s.first,     \* code: `td["i"].all() == 0` (batch-global, see Batch model)
   i |-> s.i + 1]
Done(inst, s) == s.avail = {}
RewardM(inst, s, hist) == 0 - CycleLen(inst.D, hist)
ConfState(inst, s, st) == st.cur = s.cur /\ st.i = s.i /\ st.first = s.first
PadAction(inst) == 0
\* forced first move of multi-start rollout j = 0, 1, ... (rl4co.utils.ops.select_start_nodes: node j mod N)
StartNode(inst, j) == j % inst.N
=============================================================================
