------------------------------- MODULE PDP -------------------------------
(* Pickup and delivery with one vehicle and a depot.
   inst = [N, H, D, force]: depot 0, N = 2H customers; pickups 1..H, the
   delivery of pickup p is node p + H; integer distance matrix D (read with
   Dist); force = the environment variant `force_start_at_depot` (TRUE: the
   depot is listed as the first action; FALSE: the depot is never an action).
   PART 1 is the problem as defined independently of rl4co (the oracle);
   PART 2 is a code-shaped model of rl4co.envs.routing.pdp.PDPEnv.           *)
EXTENDS Util

Cust(inst)     == 1..inst.N
Pickups(inst)  == 1..inst.H
Actions(inst)  == 0..inst.N
InstanceOK(inst) == inst.N = 2 * inst.H /\ inst.H >= 1 /\ inst.force \in BOOLEAN

(* ------------------------- PART 1: ground truth ------------------------- *)
\* position of the first occurrence of node v in seq (0 = absent)
PosOf(seq, v) == IF \E k \in DOMAIN seq : seq[k] = v
                 THEN CHOOSE k \in DOMAIN seq : seq[k] = v /\ \A m \in 1..(k - 1) : seq[m] # v
                 ELSE 0

\* the customers in the order they are visited (depot entries removed)
Stops(seq) == SelectSeq(seq, LAMBDA v : v # 0)

\* every delivery made so far was preceded by its pickup
Precedence(inst, seq) ==
  \A p \in Pickups(inst) :
     PosOf(seq, p + inst.H) # 0 => (PosOf(seq, p) # 0 /\ PosOf(seq, p) < PosOf(seq, p + inst.H))

\* ONE tour from the depot and back: the vehicle is never at the depot between two customers.
\* Encoding of the two variants: without force the depot is implicit and never listed; with
\* force the depot is listed exactly once, at an end of the sequence (the documented format
\* lists it first; listed last it denotes the same closed tour).
DepotOK(inst, seq) ==
  IF inst.force
    THEN /\ Count(seq, 0) <= 1
         /\ \A k \in DOMAIN seq : (seq[k] = 0 /\ k > 1) =>
                (k = Len(seq) /\ \A j \in Cust(inst) : Count(SubSeq(seq, 1, k - 1), j) = 1)
    ELSE Count(seq, 0) = 0

PrefixOK(inst, pre) ==
  /\ \A k \in DOMAIN pre : pre[k] \in Actions(inst)
  /\ \A j \in Cust(inst) : Count(pre, j) <= 1          \* each node at most once
  /\ Precedence(inst, pre)
  /\ DepotOK(inst, pre)

Complete(inst, pre) ==
  /\ \A j \in Cust(inst) : Count(pre, j) = 1           \* each node exactly once
  /\ inst.force => Count(pre, 0) = 1
Feasible(inst, sol) == PrefixOK(inst, sol) /\ Complete(inst, sol)

\* reward units: minus the closed tour depot -> customers in visiting order -> depot
Objective(inst, sol) == 0 - CycleLen(inst.D, <<0>> \o Stops(sol))

\* documented (docstring of PDPEnv): with force_start_at_depot "the only valid action at the
\* first step is to visit the depot"
Pointless(inst, pre, a) == inst.force /\ pre = <<>> /\ a # 0

StepBound(inst) == IF inst.force THEN inst.N + 1 ELSE inst.N
PadNeeded(inst) == FALSE           \* fixed-length episodes
StepOK(inst, pre, st)   == TRUE
FinalOK(inst, sol, fin) == TRUE

(* ------------------- PART 2: implementation model ----------------------- *)
\* PDPEnv._reset: to_deliver = [1]*(H+1) ++ [0]*H ; available all ones; the mask is a STORED
\* field (not recomputed from available/to_deliver at reset):
\*   force:     action_mask = {0}               available = 0..N
\*   otherwise: action_mask = 1..H              available = 1..N  (depot "already visited")
Init0(inst) ==
  [avail |-> IF inst.force THEN 0..inst.N ELSE 1..inst.N,
   todel |-> 0..inst.H,
   mask  |-> IF inst.force THEN {0} ELSE 1..inst.H,
   cur   |-> 0,
   i     |-> 0]

\* quirk: new_to_deliver = (a + num_loc // 2) % (num_loc + 1) is computed for EVERY action;
\* for a pickup it is its delivery, for a delivery d it wraps to node d - H - 1 and for the
\* depot it is node H -- both already have their to_deliver bit set (pdp/env.py:_step)
PairOf(inst, a) == (a + inst.H) % (inst.N + 1)

Mask(inst, s) == s.mask

Step(inst, s, a) ==
  LET av == s.avail \ {a}
      td == s.todel \cup {PairOf(inst, a)}
  IN [avail |-> av, todel |-> td, mask |-> av \cap td, cur |-> a, i |-> s.i + 1]

Done(inst, s) == s.avail = {}                   \* count_nonzero(available) == 0

\* PDPEnv._get_reward: depot prepended to the gathered locations, get_tour_length closes the tour
RewardM(inst, s, hist) == 0 - CycleLen(inst.D, <<0>> \o hist)

ConfState(inst, s, st) ==
  /\ st.cur = s.cur /\ st.i = s.i
  /\ ToSetU(st.avail) = s.avail /\ ToSetU(st.todel) = s.todel

PadAction(inst) == 0
=============================================================================
