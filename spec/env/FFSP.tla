------------------------------- MODULE FFSP -------------------------------
(* Flexible flow shop.
   inst = [S, m, N, rt]: S stages, m identical-count machines per stage
   (machine k in 0..S*m-1 belongs to stage k \div m), jobs 0..N-1, integer run
   time rt[j+1][k+1] of job j on machine k.  Every job has to pass the stages
   0,1,..,S-1 in this order, on one machine of each stage.
   Action ids: 0..N-1 = "start this job", N = "wait" (leave the machine idle).
   PART 1 is the problem as defined independently of rl4co (the oracle): what a
   valid schedule is, what an action sequence of a time-stepped dispatcher denotes,
   in terms of OPERATION INTERVALS; PART 2 is a code-shaped model of
   rl4co.envs.scheduling.ffsp.FFSPEnv (countdown counters, index tables).     *)
EXTENDS Util

NJobs(inst)    == inst.N
NMach(inst)    == inst.S * inst.m
JobIds(inst)   == 0..(inst.N - 1)
Machines(inst) == 0..(NMach(inst) - 1)
WaitAct(inst)  == inst.N
Actions(inst)  == 0..inst.N
Dur(inst, j, k) == inst.rt[j + 1][k + 1]
StageOf(inst, k) == k \div inst.m
InstanceOK(inst) ==
  /\ inst.S >= 1 /\ inst.m >= 1 /\ inst.N >= 1
  /\ \A j \in JobIds(inst) : \A k \in Machines(inst) : Dur(inst, j, k) >= 1

RECURSIVE MaxSet(_)
MaxSet(X) == LET x == CHOOSE y \in X : TRUE
             IN IF X = {x} THEN x ELSE Max(x, MaxSet(X \ {x}))

(* ------------------------- PART 1: ground truth ------------------------- *)
\* a schedule is a set of operations [j |-> job, k |-> machine, t |-> start time]
EndOf(inst, o) == o.t + Dur(inst, o.j, o.k)
Makespan(inst, ops) == IF ops = {} THEN 0 ELSE MaxSet({EndOf(inst, o) : o \in ops})

\* constraints every (partial) schedule has to respect
NoClash(inst, ops) ==
  /\ \A o \in ops : o.j \in JobIds(inst) /\ o.k \in Machines(inst) /\ o.t >= 0
  \* no machine processes two operations at the same time
  /\ \A o1, o2 \in ops : (o1 # o2 /\ o1.k = o2.k) =>
        (EndOf(inst, o1) <= o2.t \/ EndOf(inst, o2) <= o1.t)
  \* a job is processed at most once per stage, stages in order and not overlapping
  /\ \A o1, o2 \in ops : (o1 # o2 /\ o1.j = o2.j) =>
        /\ StageOf(inst, o1.k) # StageOf(inst, o2.k)
        /\ (StageOf(inst, o1.k) < StageOf(inst, o2.k) => EndOf(inst, o1) <= o2.t)
  \* a job enters stage s only after it has been through the stages before s
  /\ \A o \in ops : \A s \in 0..(StageOf(inst, o.k) - 1) :
        \E o1 \in ops : o1.j = o.j /\ StageOf(inst, o1.k) = s

\* complete: every job processed exactly once in every stage
AllProcessed(inst, ops) ==
  \A j \in JobIds(inst) : \A s \in 0..(inst.S - 1) :
     Cardinality({o \in ops : o.j = j /\ StageOf(inst, o.k) = s}) = 1

ValidSchedule(inst, ops) == NoClash(inst, ops) /\ AllProcessed(inst, ops)

\* --- what an action sequence denotes (time-stepped dispatching) ---
\* Decision points are the pairs (t, k) in the order t = 0,1,2,.. and, within one time
\* unit, k = 0..S*m-1.  A point is OPEN iff machine k is idle at t and some job that has
\* finished exactly the stages before StageOf(k) (all of them completed by t) exists.
\* The i-th action is taken at the i-th open point: a job id starts the job there,
\* WaitAct leaves the machine idle until the next time unit.
OpsOfJob(ops, j) == {o \in ops : o.j = j}
Idle(inst, ops, k, t) == \A o \in ops : o.k = k => (t < o.t \/ EndOf(inst, o) <= t)
JobReady(inst, ops, j, k, t) ==
  /\ Cardinality(OpsOfJob(ops, j)) = StageOf(inst, k)
  /\ \A o \in OpsOfJob(ops, j) : EndOf(inst, o) <= t
Open(inst, ops, t, k) == Idle(inst, ops, k, t) /\ \E j \in JobIds(inst) : JobReady(inst, ops, j, k, t)
Finished(inst, ops) == \A j \in JobIds(inst) : Cardinality(OpsOfJob(ops, j)) = inst.S

Horizon(inst) == SumSeq([j \in 1..inst.N |-> SumSeq(inst.rt[j])]) + 1

RECURSIVE NextOpen(_, _, _, _)
NextOpen(inst, ops, t, k) ==       \* first open point after (t, k); guarded by the horizon
  LET k1 == IF k + 1 = NMach(inst) THEN 0 ELSE k + 1
      t1 == IF k + 1 = NMach(inst) THEN t + 1 ELSE t
  IN IF t1 > Horizon(inst) \/ Open(inst, ops, t1, k1) THEN <<t1, k1>>
     ELSE NextOpen(inst, ops, t1, k1)

\* interpretation of acts[i..] from the open point (t, k); stops at the first action
\* that is not permitted by the problem (bad) -- a job that is not ready for this stage
RECURSIVE Run(_, _, _, _, _, _)
Run(inst, acts, i, ops, t, k) ==
  IF i > Len(acts) THEN [ops |-> ops, t |-> t, k |-> k, bad |-> FALSE]
  ELSE LET a == acts[i] IN
    IF Finished(inst, ops) THEN
       \* nothing left to start: only idling is meaningful
       IF a = WaitAct(inst) THEN Run(inst, acts, i + 1, ops, t, k)
       ELSE [ops |-> ops, t |-> t, k |-> k, bad |-> TRUE]
    ELSE IF a = WaitAct(inst) THEN
       LET p == NextOpen(inst, ops, t, k) IN Run(inst, acts, i + 1, ops, p[1], p[2])
    ELSE IF a \in JobIds(inst) /\ JobReady(inst, ops, a, k, t) /\ Idle(inst, ops, k, t) THEN
       LET ops2 == ops \cup {[j |-> a, k |-> k, t |-> t]}
           p == IF Finished(inst, ops2) THEN <<t, k>> ELSE NextOpen(inst, ops2, t, k)
       IN Run(inst, acts, i + 1, ops2, p[1], p[2])
    ELSE [ops |-> ops, t |-> t, k |-> k, bad |-> TRUE]

Sem(inst, pre) == Run(inst, pre, 1, {}, 0, 0)

PrefixOK(inst, pre) == LET r == Sem(inst, pre) IN ~r.bad /\ NoClash(inst, r.ops)
Complete(inst, pre) == LET r == Sem(inst, pre) IN ~r.bad /\ Finished(inst, r.ops)
Feasible(inst, sol) == LET r == Sem(inst, sol) IN ~r.bad /\ ValidSchedule(inst, r.ops)

\* reward units: minus the makespan (latest completion time)
Objective(inst, sol) == 0 - Makespan(inst, Sem(inst, sol).ops)

Pointless(inst, pre, a) == FALSE
PadNeeded(inst) == TRUE            \* episodes of one batch finish at different steps

\* C02 step bound: one step per operation plus one per wait.  Leaving a machine idle is
\* only sensible while a job that is not there yet can still arrive, so:
\*  - stage 0 never idles with an unstarted job: before the last start all m machines are busy,
\*    hence last start <= (total - smallest longest-run-time) \div m, and (induction over the
\*    stages) all jobs have left stage s by LatestDone(s);
\*  - a decision point of stage s >= 1 exists only once some job has left stage s-1
\*    (not before EarliestDone(s-1)) and idling there is over at LatestDone(s-1);
\*  - every time unit has m decision points per stage.
StageMachines(inst, st) == (st * inst.m)..((st + 1) * inst.m - 1)
PMax(inst, j, st) == MaxSet({Dur(inst, j, k) : k \in StageMachines(inst, st)})
PMin(inst, j, st) == 0 - MaxSet({0 - Dur(inst, j, k) : k \in StageMachines(inst, st)})
RECURSIVE LatestDone(_, _)
LatestDone(inst, st) ==
  LET pm  == {<<j, PMax(inst, j, st)>> : j \in JobIds(inst)}
      tot == SumSeq([x \in 1..inst.N |-> PMax(inst, x - 1, st)])
      mx  == MaxSet({p[2] : p \in pm})
      mn  == 0 - MaxSet({0 - p[2] : p \in pm})
  IN (IF st = 0 THEN 0 ELSE LatestDone(inst, st - 1)) + (tot - mn) \div inst.m + mx
EarliestDone(inst, st) ==
  0 - MaxSet({0 - SumSeq([q \in 1..(st + 1) |-> PMin(inst, j, q - 1)]) : j \in JobIds(inst)})
WaitBound(inst) ==
  SumSeq([st \in 1..(inst.S - 1) |->
            inst.m * Max(0, LatestDone(inst, st - 1) - EarliestDone(inst, st - 1))])
StepBound(inst) == inst.N * inst.S + WaitBound(inst)

\* --- the schedule TENSOR of the environment read as a set of operations ---
\* sched[k+1][j+1] = start time of job j on machine k, a negative number = never started
UNSET(x) == x < 0
OpsOfTensor(inst, sched) ==
  {[j |-> j, k |-> k, t |-> sched[k + 1][j + 1]] :
      <<j, k>> \in {p \in JobIds(inst) \X Machines(inst) : ~UNSET(sched[p[2] + 1][p[1] + 1])}}
NStarts(inst, pre) == Cardinality({i \in DOMAIN pre : pre[i] # WaitAct(inst)})

\* C07 while the episode runs: the partial schedule shown to the policy respects all
\* constraints and contains exactly one operation per start action taken so far
\* (st.frozen: the harness could not complete the last step -- a C02 matter -- and logged the
\* state before it)
StepOK(inst, pre, st) ==
  LET ops == OpsOfTensor(inst, st.sched)
  IN st.frozen \/ (NoClash(inst, ops) /\ Cardinality(ops) = NStarts(inst, pre))

\* C07 at the end: the final schedule tensor is a valid complete schedule and the
\* reported makespan (= -reward) is its latest completion time
FinalOK(inst, sol, fin) ==
  LET ops == OpsOfTensor(inst, fin.sched)
  IN ValidSchedule(inst, ops) /\ Makespan(inst, ops) = 0 - fin.reward

(* ------------------- PART 2: implementation model ----------------------- *)
\* state of FFSPEnv (one row): time_idx, sub_time_idx (position in the stage-machine
\* iteration; machine_idx = machine_table[0][sub] = sub and stage_idx = stage_table[sub]
\* for the un-augmented index tables), machine_wait_step, job_location, job_wait_step
\* (both with a column for the dummy "wait" job N), schedule (start times, -999999 = unset).
AllJobCols(inst) == 0..inst.N                  \* job columns incl. the dummy job N
NEG == 0 - 999999
DurM(inst, j, k) == IF j = inst.N THEN 0 ELSE Dur(inst, j, k)   \* job_duration[.., num_job, :] = 0

StageIdx(inst, sub) == sub \div inst.m          \* IndexTables.stage_table = arange(S).repeat_interleave(m)
MachIdx(inst, sub)  == sub                      \* IndexTables.machine_table[0] (identity permutation)

Init0(inst) ==
  [time |-> 0, sub |-> 0,
   mw |-> [k \in Machines(inst) |-> 0],
   jl |-> [j \in AllJobCols(inst) |-> 0],
   jw |-> [j \in AllJobCols(inst) |-> 0],
   sched |-> [k \in Machines(inst) |-> [j \in AllJobCols(inst) |-> NEG]]]

\* FFSPEnv._step: td["done"] = (job_location[:, :num_job] == num_stage).all(-1)
Done(inst, s) == \A j \in JobIds(inst) : s.jl[j] = inst.S

\* FFSPEnv._update_step_state
JobAvailable(inst, s, j) == s.jl[j] = StageIdx(inst, s.sub) /\ s.jw[j] = 0
JobInPreviousStages(inst, s) == \E j \in JobIds(inst) : s.jl[j] < StageIdx(inst, s.sub)
JobWaitingInStage(inst, s) == \E j \in JobIds(inst) : s.jl[j] = StageIdx(inst, s.sub) /\ s.jw[j] > 0
\* quirk: `wait_allowed = ... + done` -- a finished row is offered exactly the wait action
WaitAllowed(inst, s) == JobInPreviousStages(inst, s) \/ JobWaitingInStage(inst, s) \/ Done(inst, s)

\* quirk (not modelled per row, batch-global): FFSPEnv._step skips _update_step_state when
\* the WHOLE batch is done, leaving action_mask stale; the decoding loops stop there.  The
\* adapter shows the mask of a finished row as it is next to an unfinished batch-mate.
\* _reset hard-codes the first mask (all jobs, no wait) -- equal to this formula at Init0.
Mask(inst, s) == {j \in JobIds(inst) : JobAvailable(inst, s, j)}
                 \cup (IF WaitAllowed(inst, s) THEN {WaitAct(inst)} ELSE {})

\* one iteration of the while loop of FFSPEnv._move_to_next_machine
DecZ(x) == IF x - 1 < 0 THEN 0 ELSE x - 1
Advance(inst, s) ==
  LET stepTimeRequired == s.sub + 1 = NMach(inst)
      sub2 == IF stepTimeRequired THEN 0 ELSE s.sub + 1
  IN [s EXCEPT !.sub = sub2,
               !.time = IF stepTimeRequired THEN s.time + 1 ELSE s.time,
               !.mw = IF stepTimeRequired THEN [k \in Machines(inst) |-> DecZ(s.mw[k])] ELSE s.mw,
               \* the dummy column is counted down as well
               !.jw = IF stepTimeRequired THEN [j \in AllJobCols(inst) |-> DecZ(s.jw[j])] ELSE s.jw]

MachineReady(inst, s) == s.mw[MachIdx(inst, s.sub)] = 0
JobReadyM(inst, s) == \E j \in JobIds(inst) : s.jl[j] = StageIdx(inst, s.sub) /\ s.jw[j] = 0

RECURSIVE MoveToNextMachine(_, _, _)
MoveToNextMachine(inst, s, fuel) ==            \* do .. while ~ready (fuel: the loop of the code has no bound)
  LET s2 == Advance(inst, s)
  IN IF fuel = 0 \/ (MachineReady(inst, s2) /\ JobReadyM(inst, s2)) THEN s2
     ELSE MoveToNextMachine(inst, s2, fuel - 1)

Step(inst, s, a) ==
  LET mach == MachIdx(inst, s.sub)
      len  == DurM(inst, a, mach)
      s1 == [s EXCEPT !.jl[a] = s.jl[a] + 1,              \* also for the dummy job (wait)
                      !.sched[mach][a] = s.time,           \* a wait writes the dummy column
                      !.mw[mach] = len,                    \* quirk: a wait stores 0 here
                      !.jw[a] = len]
  IN IF Done(inst, s1) THEN s1                             \* finished rows are not moved on
     ELSE MoveToNextMachine(inst, s1, NMach(inst) * (Horizon(inst) + 2))

\* FFSPEnv._step (only executed when the whole batch is done): end = schedule + duration,
\* max over the real jobs and all machines -- unset entries are -999999 + duration
RewardM(inst, s, hist) ==
  0 - MaxSet({s.sched[k][j] + Dur(inst, j, k) : <<j, k>> \in JobIds(inst) \X Machines(inst)})

ConfState(inst, s, st) ==
  /\ ~st.frozen
  /\ st.time = s.time /\ st.sub = s.sub
  /\ st.mach = MachIdx(inst, s.sub) /\ st.stage = StageIdx(inst, s.sub)
  /\ \A k \in Machines(inst) : st.mw[k + 1] = s.mw[k]
  /\ \A j \in AllJobCols(inst) : st.jl[j + 1] = s.jl[j] /\ st.jw[j + 1] = s.jw[j]
  /\ \A k \in Machines(inst) : \A j \in AllJobCols(inst) : st.sched[k + 1][j + 1] = s.sched[k][j]

PadAction(inst) == inst.N
=============================================================================
