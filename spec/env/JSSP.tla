------------------------------- MODULE JSSP -------------------------------
(* Job-shop scheduling: rl4co.envs.scheduling.jssp.env.JSSPEnv subclasses
   FJSPEnv and overrides only the action interface:
     - an action a >= 1 names a JOB (0 = wait); the machine is the single
       machine that can process the job's next operation (_translate_action:
       ops_ma_adj[:, op].nonzero());
     - get_action_mask reduces the (job, machine) availability over machines
       (a job is hidden iff all its pairs are hidden).
   Both differences are selected in the shared module by inst.jssp = TRUE
   (Actions, ActJob/ActMach in PART 1; Mask, SelJob/SelMach in PART 2), and
   InstanceOK then demands exactly one eligible machine per operation.  All
   other definitions (ValidSchedule, dispatching rule, clock, release of jobs,
   padding) are those of FJSP.                                              *)
EXTENDS FJSP

\* the family handed to this module must consist of job-shop instances
IsJobShop(inst) == inst.jssp /\ InstanceOK(inst)
=============================================================================
