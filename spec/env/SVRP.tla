------------------------------- MODULE SVRP -------------------------------
(* Skill vehicle routing.
   inst = [N, T, D, req, skill, cost]: customers 1..N, depot 0, integer
   distance matrix D (read with Dist); req[j] = skill level customer j needs;
   technicians 1..T with skill[t] (ascending, as SVRPGenerator sorts them) and
   travel-cost factor cost[t] per unit of distance.
   Encoding of a solution as an action sequence (the environment's, and the
   only thing PART 1 takes from it): the sequence is cut at every 0; the k-th
   piece (k = 1, 2, ...; pieces may be empty) is the route of technician k,
   who leaves from and returns to the depot.
   PART 1 is the problem as defined independently of rl4co (the oracle);
   PART 2 is a code-shaped model of rl4co.envs.routing.svrp.SVRPEnv.        *)
EXTENDS Util

Cust(inst)    == 1..inst.N
Tech(inst)    == 1..inst.T
Actions(inst) == 0..inst.N

(* What SVRPGenerator delivers: technicians sorted by skill, every customer can
   be served by the most skilled technician (skills = max tech * U(0,1)).
   One technician is allowed (since the fix "SVRP works with a single technician": before it
   SVRPEnv._step raised when the only technician returned to the depot).            *)
InstanceOK(inst) ==
  /\ inst.T >= 1
  /\ \A t \in Tech(inst) : inst.skill[t] >= 1 /\ inst.cost[t] >= 1
  /\ \A t \in 1..(inst.T - 1) : inst.skill[t] <= inst.skill[t + 1]
  /\ \A j \in Cust(inst) : inst.req[j] >= 0 /\ inst.req[j] <= inst.skill[inst.T]

(* ------------------------- PART 1: ground truth ------------------------- *)
\* pieces of the sequence between depot visits, empty pieces kept
RECURSIVE Pieces(_)
Pieces(seq) ==
  IF \A i \in DOMAIN seq : seq[i] # 0 THEN <<seq>>
  ELSE LET z == CHOOSE i \in DOMAIN seq : seq[i] = 0 /\ \A j \in 1..(i - 1) : seq[j] # 0
       IN <<SubSeq(seq, 1, z - 1)>> \o Pieces(SubSeq(seq, z + 1, Len(seq)))

(* The problem demands:
     - every customer is served exactly once, by one technician,
     - that technician's skill is at least the customer's requirement,
     - a technician makes at most one tour (so there are at most T tours and
       at most T returns to the depot).  A technician may stay at home.      *)
PieceOK(inst, k, r) ==
  r # <<>> => /\ k <= inst.T
              /\ \A i \in DOMAIN r : inst.req[r[i]] <= inst.skill[k]

PrefixOK(inst, pre) ==
  /\ \A k \in DOMAIN pre : pre[k] \in Actions(inst)
  /\ \A j \in Cust(inst) : Count(pre, j) <= 1
  /\ Count(pre, 0) <= inst.T
  /\ LET P == Pieces(pre) IN \A k \in DOMAIN P : PieceOK(inst, k, P[k])

Complete(inst, pre) == \A j \in Cust(inst) : Count(pre, j) = 1
\* depot visits after the last customer (the closing return, padding) employ nobody: they are not counted
RECURSIVE Trim(_)
Trim(seq) == IF seq # <<>> /\ Last(seq) = 0 THEN Trim(Front(seq)) ELSE seq
Feasible(inst, sol) == PrefixOK(inst, Trim(sol)) /\ Complete(inst, sol)

\* reward units: minus the sum over technicians of cost factor * length of the closed tour
Objective(inst, sol) ==
  LET P == Pieces(sol) IN
  0 - SumSeq([k \in DOMAIN P |-> IF P[k] = <<>> THEN 0
                                  ELSE inst.cost[k] * CycleLen(inst.D, <<0>> \o P[k])])

(* No pruning is "pointless" here: depot -> depot is NOT a wasted move, it sends the
   current technician home unused and changes who pays for the following legs.   *)
Pointless(inst, pre, a) == FALSE

\* every customer once + at most one depot return per technician but the last
\* (a lone tour that serves everybody still needs its closing return: max)
StepBound(inst) == inst.N + Max(inst.T - 1, 1)
PadNeeded(inst) == TRUE
StepOK(inst, pre, st)   == TRUE
FinalOK(inst, sol, fin) == TRUE

(* ------------------- PART 2: implementation model ----------------------- *)
\* SVRPEnv state: visited (incl. the depot bit), current_node, current_tech (0-based)
Init0(inst) == [visited |-> {}, cur |-> 0, tech |-> 0]

\* current_tech never runs past the last technician (clamped in _step since the fix "SVRP works with a
\* single technician"; before it the T-th depot visit -- the final return of a single technician, or a
\* post-finish step beyond what any batch-mate can induce -- raised "index out of bounds")
TechOverflow(inst, s) == s.tech >= inst.T
CurSkill(inst, s)     == inst.skill[s.tech + 1]

CanService(inst, s, j) == inst.req[j] <= CurSkill(inst, s)
MaskLoc(inst, s, j)    == j \in s.visited \/ ~CanService(inst, s, j)        \* TRUE = hidden
\* quirk (ForcedToServe): the depot is hidden whenever the vehicle is AT the depot and the
\* technician on duty could serve somebody -- a technician who can work must work; and it is
\* hidden for the last technician while anybody is unserved.
MaskDepot(inst, s) == /\ (s.cur = 0 \/ s.tech = inst.T - 1)
                      /\ \E j \in Cust(inst) : ~MaskLoc(inst, s, j)

Mask(inst, s) == {j \in Cust(inst) : ~MaskLoc(inst, s, j)}
                 \cup (IF MaskDepot(inst, s) THEN {} ELSE {0})

\* SVRPEnv._step: a depot visit always hands over to the next technician (also depot -> depot,
\* also after the episode has finished)
Step(inst, s, a) ==
  [visited |-> s.visited \cup {a},
   cur     |-> a,
   tech    |-> IF a = 0 THEN Min(s.tech + 1, inst.T - 1) ELSE s.tech]

Done(inst, s) == s.visited = 0..inst.N            \* the depot bit is part of `done`

\* SVRPEnv._get_reward: locs_ordered = depot + actions; leg p runs from position p to p + 1
\* (the roll closes the tour); the leg's factor is tech_costs[number of zeros among the
\* actions before position p], the last technician staying the last one
RewardM(inst, s, hist) ==
  LET locs == <<0>> \o hist
      L    == Len(locs)
      nxt(p) == IF p = L THEN locs[1] ELSE locs[p + 1]
      tch(p) == Min(Count(SubSeq(hist, 1, p - 1), 0), inst.T - 1)
  IN 0 - SumSeq([p \in 1..L |-> inst.cost[tch(p) + 1] * Dist(inst.D, locs[p], nxt(p))])

ConfState(inst, s, st) == st.cur = s.cur /\ st.tech = s.tech /\ ToSetU(st.visited) = s.visited

PadAction(inst) == 0
=============================================================================
