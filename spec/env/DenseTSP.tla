----------------------------- MODULE DenseTSP -----------------------------
(* Step-wise ("dense") reward interface of the travelling salesman environment:
   rl4co.envs.routing.tsp.env.DenseRewardTSPEnv (a TSPEnv whose _step leaves a
   per-step reward in td["reward"]; StepwisePPO reads it after every step with
   env.get_reward(next_td, None) = -td["reward"]).

   inst = [N, D, id, q_first0, q_noclose]: as TSP.tla, plus two booleans that
   say which QUIRKS of the code PART 2 carries (see PART 2).  All numbers are
   integers (distance units of the instance's grid); rewards are <= 0.

   Everything of TSP.tla (problem definition PART 1, state machine PART 2) is
   inherited; this module adds the DENSE interface (operator names shared by all
   dense modules, used by spec/common/DenseSolo.tla.tmpl / DenseTrace.tla.tmpl):

   PART 1  DStepOK DObsOK DRunning DTotal DPadOK DBoundVal DBoundLimit DWant
   PART 2  DRewM DObsM DStM DProjM DBoundValMin                                   *)
EXTENDS TSP

Leg(inst, i, j) == Dist(inst.D, i, j)

(* ------------------------- PART 1: ground truth ------------------------- *)
(* "a stepwise reward function for the TSP which is the distance added to the
   current tour by the given action" (docstring).  A tour is closed, so:
   the first node adds nothing; every later node adds the leg from its
   predecessor; the node that completes the tour also adds the closing leg back
   to the first node.  With this decomposition the rewards of an episode add up
   to the terminal reward of TSPEnv, minus the length of the closed tour.     *)
StepReward(inst, pre, a) ==
  0 - ( (IF pre = <<>> THEN 0 ELSE Leg(inst, Last(pre), a))
      + (IF Len(pre) + 1 = inst.N
           THEN Leg(inst, a, IF pre = <<>> THEN a ELSE pre[1]) ELSE 0) )

\* what the rewards collected along `pre` must add up to
RECURSIVE Running(_, _)
Running(inst, pre) ==
  IF pre = <<>> THEN 0
  ELSE Running(inst, Front(pre)) + StepReward(inst, Front(pre), Last(pre))

\* --- the dense interface ---
\* r is the reward reported for taking a after pre; ob0 / ob1 are the dense observations
\* before / after the step (this environment shows none)
DStepOK(inst, pre, a, r, ob0, ob1) == r = StepReward(inst, pre, a)
DWant(inst, pre, a, ob0, ob1)      == StepReward(inst, pre, a)
DObsOK(inst, pre, st, ob)          == TRUE
DRunning(inst, pre, ob)            == Running(inst, pre)
DTotal(inst, sol)                  == Objective(inst, sol)      \* C03: minus the closed tour length
DPadOK(inst, r, ob0, ob1)          == r = 0 /\ ob1 = ob0
DBoundVal(inst, ob)                == 0                         \* no bound on display
DBoundValMin(inst, s)              == 0
DBoundLimit(inst, sol)             == 0

(* ------------------- PART 2: implementation model ----------------------- *)
(* DenseRewardTSPEnv._step:
       last_node = td["current_node"];  current_node = td["action"]
       reward    = get_distance(locs[last_node], locs[current_node])
   and _get_reward(td, None) = -td["reward"].  Two QUIRKS of the pinned code,
   selected by instance data so that the same module also describes a repaired
   environment (the harness sets both to what the code at hand is known to do):
     q_first0   _reset leaves current_node = 0, so the FIRST step is charged the
                leg from node 0 to the first action although nothing has been
                driven yet (0 only when the tour happens to start at node 0);
     q_noclose  the closing leg from the last node back to first_node is never
                charged (done is computed, the leg is not added).
   With both quirks the rewards add up to  -(Leg(0, a1) + open path length).  *)
DRewM(inst, s, a, s2) ==
  0 - ( (IF s.i = 0 /\ ~inst.q_first0 THEN 0 ELSE Leg(inst, s.cur, a))
      + (IF Done(inst, s2) /\ ~Done(inst, s) /\ ~inst.q_noclose THEN Leg(inst, a, s2.first) ELSE 0) )
DObsM(inst, s)  == [x |-> 0]
DStM(inst, s)   == [x |-> 0]
DProjM(inst, s) == <<s.cur, s.i, s.first>>
=============================================================================
