------------------------------- MODULE CVRP -------------------------------
(* Capacitated vehicle routing.
   inst = [N, D, dem, cap]: customers 1..N, depot 0, integer distance matrix
   D (read with Dist), integer demands dem[1..N], integer vehicle capacity.
   PART 1 is the problem as defined independently of rl4co (the oracle);
   PART 2 is a code-shaped model of rl4co.envs.routing.cvrp.CVRPEnv.        *)
EXTENDS Util

Cust(inst)    == 1..inst.N
Actions(inst) == 0..inst.N
InstanceOK(inst) == \A j \in Cust(inst) : inst.dem[j] \in 1..inst.cap

(* ------------------------- PART 1: ground truth ------------------------- *)
RouteLoad(inst, r) == SumSeq([k \in DOMAIN r |-> inst.dem[r[k]]])

\* nothing violated so far: no customer twice, no route over capacity
PrefixOK(inst, pre) ==
  /\ \A k \in DOMAIN pre : pre[k] \in Actions(inst)
  /\ \A j \in Cust(inst) : Count(pre, j) <= 1
  /\ \A r \in ToSetU(Routes(pre)) : RouteLoad(inst, r) <= inst.cap

Complete(inst, pre) == \A j \in Cust(inst) : Count(pre, j) = 1
Feasible(inst, sol) == PrefixOK(inst, sol) /\ Complete(inst, sol)

\* reward units: minus the closed tour depot -> sol -> depot
Objective(inst, sol) == 0 - CycleLen(inst.D, <<0>> \o sol)

\* documented pruning: staying at the depot
Pointless(inst, pre, a) == a = 0 /\ Prev(pre) = 0

StepBound(inst) == 2 * inst.N + 1
PadNeeded(inst) == TRUE            \* variable-length episodes: finished rows are stepped on
StepOK(inst, pre, st)  == TRUE     \* no bookkeeping beyond the mask is shown to the policy
FinalOK(inst, sol, fin) == TRUE

(* ------------------- PART 2: implementation model ----------------------- *)
\* state of CVRPEnv: visited (incl. the depot bit), current_node, used_capacity
Init0(inst) == [visited |-> {}, cur |-> 0, used |-> 0]

ExceedsCap(inst, s, j) == inst.dem[j] + s.used > inst.cap
MaskLoc(inst, s, j)    == j \in s.visited \/ ExceedsCap(inst, s, j)      \* TRUE = hidden
MaskDepot(inst, s)     == s.cur = 0 /\ \E j \in Cust(inst) : ~MaskLoc(inst, s, j)

Mask(inst, s) == {j \in Cust(inst) : ~MaskLoc(inst, s, j)}
                 \cup (IF MaskDepot(inst, s) THEN {} ELSE {0})

Step(inst, s, a) ==
  [visited |-> s.visited \cup {a},
   cur     |-> a,
   used    |-> IF a = 0 THEN 0 ELSE s.used + inst.dem[a]]

Done(inst, s) == s.visited = 0..inst.N            \* the depot bit is part of `done`

\* CVRPEnv._get_reward: depot prepended, roll(-1) closes the tour
RewardM(inst, s, hist) == 0 - CycleLen(inst.D, <<0>> \o hist)

ConfState(inst, s, st) == st.cur = s.cur /\ st.used = s.used /\ ToSetU(st.visited) = s.visited

\* action used to pad a finished row / to close a solution that does not end at the depot
PadAction(inst) == 0
\* forced first move of multi-start rollout j = 0, 1, ... (select_start_nodes: customer (j mod N) + 1, never the depot)
StartNode(inst, j) == (j % inst.N) + 1
=============================================================================
