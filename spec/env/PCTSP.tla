------------------------------- MODULE PCTSP -------------------------------
(* Prize-collecting travelling salesman.
   inst = [N, D, prize, pen, req, unit]: customers 1..N, depot 0, integer
   distance matrix D (read with Dist), integer prizes prize[1..N] and
   requirement req (both in units of 1/unit, i.e. the float 1.0 is `unit`),
   integer penalties pen[1..N] (in distance units).
   PART 1 is the problem as defined independently of rl4co (the oracle);
   PART 2 is a code-shaped model of rl4co.envs.routing.pctsp.PCTSPEnv.
   The operators with suffix P take the prize vector `pz` that COUNTS as an
   argument, so that module SPCTSP (realised prize differs from the announced
   one) can reuse them through  P == INSTANCE PCTSP.                         *)
EXTENDS Util

Cust(inst)    == 1..inst.N
Actions(inst) == 0..inst.N
InstanceOK(inst) ==
  /\ inst.N >= 1 /\ inst.req >= 0 /\ inst.unit >= 1      \* requirement 0: the depot is open from the start
  /\ \A j \in Cust(inst) : inst.prize[j] >= 0 /\ inst.pen[j] >= 0

(* ------------------------- PART 1: ground truth ------------------------- *)
(* A solution is the sequence of nodes the salesman drives to; he starts at
   the depot and the return to the depot after the last node is implied (so
   a sequence that never names the depot is as good as one that ends there).
   Depot entries inside the sequence are ordinary way points: they collect
   nothing, cost their legs and violate nothing.                            *)
Seen(inst, pre)          == {j \in Cust(inst) : \E k \in DOMAIN pre : pre[k] = j}
CollectedP(inst, pz, pre) == SumSet(Seen(inst, pre), pz)

\* the prize constraint: the required minimum is collected (equality is enough),
\* or there is nothing left to collect
EnoughP(inst, pz, pre) == CollectedP(inst, pz, pre) >= inst.req \/ Seen(inst, pre) = Cust(inst)

\* every customer at most once
WalkOK(inst, pre) ==
  /\ \A k \in DOMAIN pre : pre[k] \in Actions(inst)
  /\ \A j \in Cust(inst) : Count(pre, j) <= 1

\* minus (closed tour depot -> sol -> depot, plus the penalties of the customers left out)
Price(inst, sol) == 0 - (CycleLen(inst.D, <<0>> \o sol) + SumSet(Cust(inst) \ Seen(inst, sol), inst.pen))

\* an early return to the depot cannot end the tour, it only adds a detour; this is the
\* documented pruning (get_action_mask: "Cannot visit depot if not yet collected 1 total
\* prize and there are unvisited nodes"); it covers depot -> depot at the start
EarlyReturnP(inst, pz, pre, a) == a = 0 /\ ~EnoughP(inst, pz, pre)

\* the tour has been closed: back at the depot with the prize constraint met
ClosedP(inst, pz, pre) == pre # <<>> /\ Last(pre) = 0 /\ EnoughP(inst, pz, pre)

PrefixOK(inst, pre)     == WalkOK(inst, pre)
Complete(inst, pre)     == ClosedP(inst, inst.prize, pre)
Feasible(inst, sol)     == WalkOK(inst, sol) /\ EnoughP(inst, inst.prize, sol)
Objective(inst, sol)    == Price(inst, sol)
Pointless(inst, pre, a) == EarlyReturnP(inst, inst.prize, pre, a)

StepBound(inst) == inst.N + 1      \* every node (N customers + the depot) at most once
PadNeeded(inst) == TRUE            \* tours of different length in one batch
StepOK(inst, pre, st)   == TRUE
FinalOK(inst, sol, fin) == TRUE

(* ------------------- PART 2: implementation model ----------------------- *)
\* state of PCTSPEnv: visited (incl. the depot bit), current_node, cur_total_prize,
\* cur_total_penalty, i, done
Init0(inst) == [visited |-> {}, cur |-> 0, prize |-> 0, pen |-> SumSeq(inst.pen),
                i |-> 0, done |-> FALSE]

\* get_action_mask: `td["cur_total_prize"] < td["prize_required"]` (since the fix "PCTSP honours the configured
\* prize requirement"; before, the literal 1.0 (= inst.unit) was used and generator.prize_required never read)
HardCodedRequirement(inst) == inst.req

NumSeen(s) == Cardinality(s.visited \ {0})

\* mask[..., 0] = (cur_total_prize < 1.0) & (visited[..., 1:].sum(-1) < size)      TRUE = hidden
DepotHidden(inst, s) == s.prize < HardCodedRequirement(inst) /\ NumSeen(s) < inst.N
\* mask = visited | visited[..., 0:1]  : once the depot bit is set every customer is hidden
LocHidden(inst, s, j) == j \in s.visited \/ 0 \in s.visited

Mask(inst, s) == {j \in Cust(inst) : ~LocHidden(inst, s, j)}
                 \cup (IF DepotHidden(inst, s) THEN {} ELSE {0})

\* QUIRK _step: cur_total_penalty starts at the sum of ALL penalties (_reset) and the penalty
\* of every visited node is ADDED to it (it is not the penalty still to be paid); the
\* field is an observation only, the reward does not use it
PenaltyBookkeeping(inst, s, a) == s.pen + (IF a = 0 THEN 0 ELSE inst.pen[a])

StepP(inst, pz, s, a) ==
  [visited |-> s.visited \cup {a},
   cur     |-> a,
   prize   |-> s.prize + (IF a = 0 THEN 0 ELSE pz[a]),     \* real_prize, depot entry 0
   pen     |-> PenaltyBookkeeping(inst, s, a),
   i       |-> s.i + 1,
   done    |-> s.i > 0 /\ a = 0]                           \* (td["i"] > 0) & (current_node == 0)

Step(inst, s, a) == StepP(inst, inst.prize, s, a)
Done(inst, s)    == s.done

\* _get_reward: saved penalties (gathered per ACTION, depot entry 0) minus (closed tour with
\* the depot prepended + all penalties); QUIRK: a length-1 action tensor returns 0
RewardM(inst, s, hist) ==
  IF Len(hist) = 1 THEN 0
  ELSE SumSeq([k \in DOMAIN hist |-> IF hist[k] = 0 THEN 0 ELSE inst.pen[hist[k]]])
       - (CycleLen(inst.D, <<0>> \o hist) + SumSeq(inst.pen))

ConfState(inst, s, st) ==
  /\ st.cur = s.cur /\ st.prize = s.prize /\ st.pen = s.pen /\ st.i = s.i
  /\ ToSetU(st.visited) = s.visited

PadAction(inst) == 0
=============================================================================
