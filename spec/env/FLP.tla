------------------------------- MODULE FLP -------------------------------
(* Facility location (k-median flavour used by rl4co): choose exactly K of the
   N locations as facilities; every location is served by its nearest chosen
   facility; cost = sum of these distances.
   inst = [N, K, D, dist0]: locations 0..N-1, quota K, integer symmetric
   distance matrix D (read with Dist), dist0 = the placeholder the data
   generator puts into the "distances" feature before anything is chosen.
   PART 1 is the problem as defined independently of rl4co (the oracle);
   PART 2 is a code-shaped model of rl4co.envs.graph.flp.env.FLPEnv.        *)
EXTENDS Util

Locs(inst)    == 0..(inst.N - 1)
Actions(inst) == Locs(inst)
InstanceOK(inst) ==
  /\ inst.K \in 1..inst.N
  /\ \A i, j \in Locs(inst) : Dist(inst.D, i, j) = Dist(inst.D, j, i) /\ Dist(inst.D, i, j) >= 0
  /\ \A i \in Locs(inst) : Dist(inst.D, i, i) = 0

(* ------------------------- PART 1: ground truth ------------------------- *)
MinOf(S) == CHOOSE m \in S : \A x \in S : m <= x

\* distance from location j to the nearest facility of the non-empty set F
Nearest(inst, F, j) == MinOf({Dist(inst.D, j, f) : f \in F})
TotalCost(inst, F)  == SumSeq([k \in 1..inst.N |-> Nearest(inst, F, k - 1)])

\* nothing violated so far: real locations, no location twice, never more than the quota
PrefixOK(inst, pre) ==
  /\ \A k \in DOMAIN pre : pre[k] \in Locs(inst)
  /\ NoDup(pre)
  /\ Len(pre) <= inst.K

Complete(inst, pre) == Cardinality(ToSetU(pre)) = inst.K
Feasible(inst, sol) == PrefixOK(inst, sol) /\ Complete(inst, sol)

\* reward units: minus the summed nearest-facility distance
Objective(inst, sol) == 0 - TotalCost(inst, ToSetU(sol))

Pointless(inst, pre, a) == FALSE
StepBound(inst) == inst.K
\* rows of one batch share N but may carry different quotas (to_choose is a per-row
\* tensor): a row with K < N can finish before a batch-mate; a row with K = N cannot.
\* (C04: its reward must then not move while it is stepped on -- Trace M_PadC04, BatchEq.)
PadNeeded(inst) == inst.K < inst.N

\* C08, per step.  st = what the environment shows after `pre`:
\*   st.done  its finished flag,  st.chosen  the selection indicator,  st.i  its counter,
\*   st.dist  the "current nearest-facility distance" feature (integer units)
StepOK(inst, pre, st) ==
  /\ NoDup(pre) /\ Len(pre) <= inst.K                      \* distinct, never beyond the quota
  /\ st.done = (Len(pre) = inst.K)                          \* finished exactly at the quota
  /\ ToSetU(st.chosen) = ToSetU(pre) /\ st.i = Len(pre)     \* the selection shown is the selection made
  /\ pre # <<>> => \A j \in Locs(inst) : st.dist[j + 1] = Nearest(inst, ToSetU(pre), j)

\* C08 while a finished row is stepped on (padding): selection and bookkeeping stay what the quota-sized selection implies
PadStateOK(inst, pre, st) ==
  /\ st.done /\ ToSetU(st.chosen) = ToSetU(pre)
  /\ \A j \in Locs(inst) : st.dist[j + 1] = Nearest(inst, ToSetU(pre), j)

\* C08, at the end: exactly the quota, all distinct (the final indicator / counter / flag are
\* the ones StepOK sees after the last step; nothing else is logged at the end)
FinalOK(inst, sol, fin) == Len(sol) = inst.K /\ NoDup(sol)

(* ------------------- PART 2: implementation model ----------------------- *)
\* state of FLPEnv: chosen (bool vector), i (step counter), distances (feature)
Init0(inst) == [chosen |-> {}, i |-> 0, dist |-> [k \in 1..inst.N |-> inst.dist0]]

\* FLPEnv._step: done = td["i"] >= to_choose - 1 with the counter BEFORE the increment,
\* i.e. new counter >= to_choose; reset reports done = False
Done(inst, s) == s.i >= 1 /\ s.i >= inst.K

\* FLPEnv._step: action_mask = ~chosen | done.  A finished row accepts ANY action as
\* padding.  (Fix "FLP/MCP instances that reached their quota ignore further (padding)
\* selections".  FORMER behaviour, quirk NoDoneGate: action_mask = ~chosen, not gated by
\* done -- a finished row was offered only locations it had not chosen, choosing one
\* grew `chosen` and changed its reward whenever quotas differed inside a batch.)
Mask(inst, s) == IF Done(inst, s) THEN Locs(inst) ELSE Locs(inst) \ s.chosen

\* FLPEnv._step: min over the rows orig_distances[f, :] of the chosen f (masked_fill inf)
RowMin(inst, F) == [k \in 1..inst.N |-> MinOf({inst.D[f + 1][k] : f \in F})]

\* FLPEnv._step: finished = td["i"] >= to_choose (before this step) keeps `chosen` as it
\* was: padding is a no-op on the selection (FORMER behaviour: always chosen + {a});
\* the counter i still advances
Step(inst, s, a) ==
  LET ch == IF Done(inst, s) THEN s.chosen ELSE s.chosen \cup {a} IN
  [chosen |-> ch, i |-> s.i + 1, dist |-> RowMin(inst, ch)]

\* FLPEnv._get_reward: QUIRK RewardFromState: computed from td["chosen"], the `actions`
\* argument is ignored (harmless now that padding leaves `chosen` alone).
RewardM(inst, s, hist) == 0 - SumSeq(RowMin(inst, s.chosen))

ConfState(inst, s, st) ==
  /\ st.i = s.i
  /\ ToSetU(st.chosen) = s.chosen
  /\ st.dist = s.dist

PadAction(inst) == 0
=============================================================================
