------------------------------- MODULE DPP -------------------------------
(* Decap placement (DPP) and its multi-port variant (MDPP): place exactly K
   decoupling capacitors on distinct cells of a size x size grid, never on a
   keep-out cell and never on a probing port.
   inst = [N, K, envK, variant, probes, keepout, avail0]:
     cells 0..N-1, quota K (max_decaps), probes / keepout = lists of cells,
     variant "dpp" (one probe, given as an index) or "mdpp" (probe indicator),
     avail0 = the cells whose bit is set in the action_mask GIVEN to reset
              (generator format: neither keep-out nor probe),
     envK   = the quota the environment OBJECT works with (see QuotaOfEnv; = K).
   Only the selection discipline is specified.  The reward (impedance
   suppression, a matrix inversion over measured PDN data) has no independent
   oracle here: Objective = 0 and the adapter reports reward 0.
   PART 1 is the problem as defined independently of rl4co (the oracle);
   PART 2 models rl4co.envs.eda.dpp.env.DPPEnv / rl4co.envs.eda.mdpp.env.MDPPEnv. *)
EXTENDS Util

Cells(inst)     == 0..(inst.N - 1)
Actions(inst)   == Cells(inst)
Forbidden(inst) == ToSetU(inst.keepout) \cup ToSetU(inst.probes)
Allowed(inst)   == Cells(inst) \ Forbidden(inst)

InstanceOK(inst) ==
  /\ inst.K >= 1 /\ Cardinality(Allowed(inst)) >= inst.K        \* the quota can be met
  /\ ToSetU(inst.probes) # {} /\ Forbidden(inst) \subseteq Cells(inst)
  /\ ToSetU(inst.keepout) \cap ToSetU(inst.probes) = {}
  /\ ToSetU(inst.avail0) \cap ToSetU(inst.keepout) = {}
  /\ Allowed(inst) \subseteq ToSetU(inst.avail0)
  \* DPP: the generator clears the probe bit itself; MDPP: the environment does it at reset
  /\ inst.variant = "dpp" => (Len(inst.probes) = 1 /\ ToSetU(inst.avail0) = Allowed(inst))

(* ------------------------- PART 1: ground truth ------------------------- *)
PrefixOK(inst, pre) ==
  /\ \A k \in DOMAIN pre : pre[k] \in Allowed(inst)      \* never a keep-out cell or a probing port
  /\ NoDup(pre)                                           \* one decap per cell
  /\ Len(pre) <= inst.K                                   \* never more than the quota

Complete(inst, pre) == Cardinality(ToSetU(pre)) = inst.K
Feasible(inst, sol) == PrefixOK(inst, sol) /\ Complete(inst, sol)
Objective(inst, sol) == 0                                 \* reward not claimed (see header)
Pointless(inst, pre, a) == FALSE
StepBound(inst) == inst.K
PadNeeded(inst) == FALSE       \* max_decaps is one number per environment: all rows finish together

\* C08, per step.  st.done = finished flag, st.i = the counter shown to the policy
StepOK(inst, pre, st) ==
  /\ \A k \in DOMAIN pre : pre[k] \in Allowed(inst)
  /\ NoDup(pre) /\ Len(pre) <= inst.K
  /\ st.done = (Len(pre) = inst.K)                        \* finished exactly at the quota
  /\ st.i = Len(pre)

FinalOK(inst, sol, fin) ==
  Len(sol) = inst.K /\ NoDup(sol) /\ \A k \in DOMAIN sol : sol[k] \in Allowed(inst)

(* ------------------- PART 2: implementation model ----------------------- *)
\* DPPEnv._reset: action_mask = the given one, keepout = ~action_mask (for DPP this
\* includes the probe).  MDPPEnv._reset: action_mask = given & ~probe,
\* keepout = ~given (computed BEFORE the probes are removed).
Init0(inst) ==
  [avail   |-> IF inst.variant = "mdpp" THEN ToSetU(inst.avail0) \ ToSetU(inst.probes)
               ELSE ToSetU(inst.avail0),
   keepout |-> Cells(inst) \ ToSetU(inst.avail0),
   i       |-> 0]

Mask(inst, s) == s.avail

\* DPPEnv._step: scatter 0 into action_mask at the action; i += 1
Step(inst, s, a) == [avail |-> s.avail \ {a}, keepout |-> s.keepout, i |-> s.i + 1]

\* DPPEnv._step: done = td["i"] >= self.max_decaps - 1 (counter before the increment).
\* QuotaOfEnv: self.max_decaps is copied from the generator in DPPEnv.__init__; MDPPEnv
\* copies it again from its own MDPPGenerator (fix "MDPP environment uses the quota and chip
\* data of its own generator"), so envK = K for both.  FORMER behaviour of MDPP:
\* MDPPEnv.__init__ calls DPPEnv.__init__ WITHOUT its generator, the copy (and size, raw_pdn,
\* decap, freq) came from a throw-away default DPPGenerator() (max_decaps = 20, default data
\* files) and was never refreshed: envK = 20 whatever generator_params said.  envK is read
\* from the environment object by the adapter; the monitors of PART 1 use K.
Done(inst, s) == s.i >= 1 /\ s.i >= inst.envK

RewardM(inst, s, hist) == 0

ConfState(inst, s, st) ==
  /\ st.i = s.i
  /\ ToSetU(st.keepout) = s.keepout

PadAction(inst) == 0
=============================================================================
