------------------------------ MODULE CVRPTW ------------------------------
(* Capacitated vehicle routing with time windows and service durations.
   inst = [N, D, dem, cap, tws, twe, dur, H]:
     customers 1..N, depot 0, integer distance matrix D (read with Dist; one
     distance unit takes one time unit), integer demands dem[1..N], vehicle
     capacity cap, time window [tws[j], twe[j]] and service duration dur[j] of
     customer j, H = closing time of the depot (planning horizon; the depot
     opens at 0).
   PART 1 is the problem as defined independently of rl4co (the oracle);
   PART 2 is a code-shaped model of rl4co.envs.routing.cvrptw.CVRPTWEnv
   (a subclass of CVRPEnv).                                                 *)
EXTENDS Util

Cust(inst)    == 1..inst.N
Actions(inst) == 0..inst.N

(* What CVRPTWGenerator delivers (and what the environment silently needs):
   a window is non-empty (the generator even makes it strict: tws < twe), every
   customer can be reached from the depot before its window closes, and a
   service started at the very end of a window still lets the vehicle be back
   before the depot closes (generator: max_ts <= max_time - dist - duration).
   The environment never checks "can I still get home" when it offers a
   customer -- it relies on the last clause.                                *)
InstanceOK(inst) ==
  /\ inst.H > 0
  /\ \A j \in Cust(inst) :
       /\ inst.dem[j] \in 1..inst.cap
       /\ inst.dur[j] >= 0
       /\ 0 <= inst.tws[j] /\ inst.tws[j] < inst.twe[j]
       /\ Dist(inst.D, 0, j) <= inst.twe[j]
       /\ inst.twe[j] + inst.dur[j] + Dist(inst.D, j, 0) <= inst.H

(* ------------------------- PART 1: ground truth ------------------------- *)
(* One vehicle per route; every vehicle leaves the depot at time 0.  Along a
   route r = <<c1, ..., cm>> the vehicle ARRIVES at ck after driving, may WAIT
   until the window opens, BEGINS service at max(arrival, tws), and LEAVES
   after the service duration.  The problem demands:
     - every customer is served exactly once,
     - the load of every route is at most the capacity,
     - every service BEGINS inside the customer's window (begin <= twe;
       begin >= tws holds by waiting; finishing after twe is allowed),
     - every vehicle is back at the depot no later than H.                  *)
RouteLoad(inst, r) == SumSeq([k \in DOMAIN r |-> inst.dem[r[k]]])

RECURSIVE Leave(_, _, _)
Arrive(inst, r, k) == Leave(inst, r, k - 1)
                        + Dist(inst.D, IF k = 1 THEN 0 ELSE r[k - 1], r[k])
Begin(inst, r, k)  == LET a == Arrive(inst, r, k) IN Max(a, inst.tws[r[k]])
Leave(inst, r, k)  == IF k = 0 THEN 0 ELSE Begin(inst, r, k) + inst.dur[r[k]]

BackAt(inst, r) == IF r = <<>> THEN 0
                   ELSE Leave(inst, r, Len(r)) + Dist(inst.D, Last(r), 0)

RouteOnTime(inst, r) ==
  /\ \A k \in DOMAIN r : Begin(inst, r, k) <= inst.twe[r[k]]
  /\ BackAt(inst, r) <= inst.H

(* nothing violated so far.  The route still being driven is judged as if it
   returned now: distances obey the triangle inequality, so a vehicle that
   cannot get home in time now cannot get home in time after more customers. *)
PrefixOK(inst, pre) ==
  /\ \A k \in DOMAIN pre : pre[k] \in Actions(inst)
  /\ \A j \in Cust(inst) : Count(pre, j) <= 1
  /\ \A r \in ToSetU(Routes(pre)) :
        RouteLoad(inst, r) <= inst.cap /\ RouteOnTime(inst, r)

Complete(inst, pre) == \A j \in Cust(inst) : Count(pre, j) = 1
Feasible(inst, sol) == PrefixOK(inst, sol) /\ Complete(inst, sol)

\* reward units: minus the total driven length (closed routes); waiting and
\* service times are not part of the objective
Objective(inst, sol) == 0 - CycleLen(inst.D, <<0>> \o sol)

\* documented pruning: staying at the depot (a vehicle that serves nobody)
Pointless(inst, pre, a) == a = 0 /\ Prev(pre) = 0

StepBound(inst) == 2 * inst.N + 1
PadNeeded(inst) == TRUE

\* the clock shown to the policy ("current_time") should be the time at which the vehicle is
\* ready to leave its current node (0 for a fresh vehicle at the depot).  It is compared with
\* the model (ConfState), not monitored: C01-C06 speak about masks, rewards and checkers only.
Clock(inst, pre) == LET r == CurRoute(pre) IN Leave(inst, r, Len(r))
StepOK(inst, pre, st)   == TRUE
FinalOK(inst, sol, fin) == TRUE

(* ------------------- PART 2: implementation model ----------------------- *)
\* CVRPEnv state (visited incl. the depot bit, current_node, used_capacity)
\* + CVRPTWEnv.current_time
Init0(inst) == [visited |-> {}, cur |-> 0, used |-> 0, time |-> 0]

\* time_windows / durations carry a depot row: (0, max_time) and 0
TwStart(inst, j) == IF j = 0 THEN 0 ELSE inst.tws[j]
TwEnd(inst, j)   == IF j = 0 THEN inst.H ELSE inst.twe[j]
Dur(inst, j)     == IF j = 0 THEN 0 ELSE inst.dur[j]

\* CVRPEnv.get_action_mask
ExceedsCap(inst, s, j) == inst.dem[j] + s.used > inst.cap
MaskLoc(inst, s, j)    == j \in s.visited \/ ExceedsCap(inst, s, j)      \* TRUE = hidden
MaskDepot(inst, s)     == s.cur = 0 /\ \E j \in Cust(inst) : ~MaskLoc(inst, s, j)
NotMaskedCVRP(inst, s, j) == IF j = 0 THEN ~MaskDepot(inst, s) ELSE ~MaskLoc(inst, s, j)

\* CVRPTWEnv.get_action_mask: current_time + dist <= time_windows[..., 1]
\* (all nodes, the depot row too; no look-ahead to the way home -- see InstanceOK)
CanReachInTime(inst, s, j) == s.time + Dist(inst.D, s.cur, j) <= TwEnd(inst, j)

\* quirk: the parent's depot rule counts customers that are hidden only by their
\* time window as "still servable" (mask_loc of CVRPEnv knows nothing about time):
\* harmless under InstanceOK because the clock is 0 at the depot.
Mask(inst, s) == {j \in Actions(inst) : NotMaskedCVRP(inst, s, j) /\ CanReachInTime(inst, s, j)}

\* CVRPTWEnv._step.  Quirks: (a) the leg length is read from td["distances"], the
\* row cached by the PREVIOUS get_action_mask call (distances from the node the
\* vehicle is leaving); (b) choosing the depot multiplies the clock by 0 -- every
\* route starts at time 0 whatever the depot's own window / duration say.
StaleLeg(inst, s, a) == Dist(inst.D, s.cur, a)
NextTime(inst, s, a) == IF a = 0 THEN 0
                        ELSE Max(s.time + StaleLeg(inst, s, a), TwStart(inst, a)) + Dur(inst, a)

Step(inst, s, a) ==
  [visited |-> s.visited \cup {a},
   cur     |-> a,
   used    |-> IF a = 0 THEN 0 ELSE s.used + inst.dem[a],
   time    |-> NextTime(inst, s, a)]

Done(inst, s) == s.visited = 0..inst.N            \* the depot bit is part of `done`

\* CVRPTWEnv._get_reward = CVRPEnv._get_reward (depot prepended, roll closes the tour)
RewardM(inst, s, hist) == 0 - CycleLen(inst.D, <<0>> \o hist)

ConfState(inst, s, st) == /\ st.cur = s.cur /\ st.used = s.used /\ st.time = s.time
                          /\ ToSetU(st.visited) = s.visited

PadAction(inst) == 0
\* forced first move of multi-start rollout / beam j (select_start_nodes: customer (j mod N) + 1)
StartNode(inst, j) == (j % inst.N) + 1
=============================================================================
