----------------------------- MODULE InferTrace -----------------------------
(* C14 -- inference is per instance.  The neural network is an uninterpreted function here; the
   specification is the REFINEMENT the batched decoding loop must satisfy: the projection of a
   batched greedy decode onto one row is the solo decode of that instance (batch of one),
   followed by padding.  One record per (policy, environment, instance):
     solo.actions / solo.reward / solo.ll     greedy decode of the instance alone (units 1e-6)
     solo.margin[t]   gap between the best and the second best feasible log-probability at step t
                      (a step with margin <= TieMargin is a TIE: float rounding may legitimately flip it)
     rows[k]          the same instance decoded at position pos of a batch of size `size`
                      (next to copies of itself, next to unrelated instances, any order)
   The spec walks the solo decode step by step (variable l, `clean` = no tie so far); while clean,
   every row must have taken the solo action; rows that stayed clean to the end must report the solo
   reward and log-likelihood; after the solo episode ends a row may only take padding actions.      *)
EXTENDS Naturals, Integers, Sequences, FiniteSets, TLC, Json, IOUtils
Recs == ndJsonDeserialize(IOEnv.TRACE_FILE)
VARIABLES tid, l, clean
vars == <<tid, l, clean>>
R == Recs[tid]
T == Len(R.solo.actions)
TieMargin == 20            \* 2e-5 in log-probability
Init == tid \in 1..Len(Recs) /\ l = 0 /\ clean = TRUE
Next == /\ l < T /\ l' = l + 1 /\ UNCHANGED tid
        /\ clean' = (clean /\ R.solo.margin[l + 1] > TieMargin)
Spec == Init /\ [][Next]_vars
Abs(x) == IF x < 0 THEN -x ELSE x
Fail(c) == PrintT(<<"FAIL", tid, c, l>>)
\* relative 1e-4 + 5e-5 absolute (units 1e-6), by division: no 32-bit overflow
Close(x, y) == Abs(x - y) <= (Abs(y) \div 10000) + 50
\* the action of step l was decided BEFORE the state `clean` (which includes margin[l]) was updated: use the flag of the steps before l
CleanBefore(k) == \A t \in 1..(k - 1) : R.solo.margin[t] > TieMargin
\* records of best-of-k decoding (multi-start greedy with select_best) compare the reported REWARD only: two rollouts of an
\* instance may have exactly the same reward (a tour and its reverse), so which one is returned is not determined
M_Action == (R.cmp_actions /\ l > 0 /\ CleanBefore(l) /\ R.solo.margin[l] > TieMargin /\
              \E k \in DOMAIN R.rows : R.rows[k].actions[l] # R.solo.actions[l]) => Fail("greedy-action-differs")
M_Pad    == (R.cmp_actions /\ l = T /\ clean /\ \E k \in DOMAIN R.rows : \E t \in (T + 1)..Len(R.rows[k].actions) :
              R.rows[k].actions[t] # R.pad) => Fail("not-padding-after-finish")
M_Reward == (l = T /\ clean /\ \E k \in DOMAIN R.rows : ~Close(R.rows[k].reward, R.solo.reward)) => Fail("reward-differs")
M_LL     == (R.cmp_actions /\ l = T /\ clean /\ \E k \in DOMAIN R.rows : ~Close(R.rows[k].ll, R.solo.ll)) => Fail("log-likelihood-differs")
End == (l = T) => PrintT(<<"END", tid, clean>>)
=============================================================================
