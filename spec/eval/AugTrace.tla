------------------------------ MODULE AugTrace ------------------------------
(* C15 -- recorded executions of rl4co.data.transforms.symmetric_augmentation (continuous
   rotation / reflection about the centre of the unit square).  One record per augmented copy:
   d0 / d1 = pairwise distance matrices of the original / augmented coordinates in units of 1e-5,
   copy = index of the copy, same = augmented coordinates equal the original ones (1e-6).
   Every copy must preserve all pairwise distances; copy 0 must be the original instance.      *)
EXTENDS Naturals, Integers, Sequences, TLC, Json, IOUtils
Recs == ndJsonDeserialize(IOEnv.TRACE_FILE)
VARIABLE tid
Init == tid \in 1..Len(Recs)
Next == UNCHANGED tid
Spec == Init /\ [][Next]_tid
R == Recs[tid]
Abs(x) == IF x < 0 THEN -x ELSE x
Fail(c) == PrintT(<<"FAIL", tid, c>>)
M_Dist  == (\E i \in DOMAIN R.d0 : \E j \in DOMAIN R.d0[i] : Abs(R.d0[i][j] - R.d1[i][j]) > 3) => Fail("distance-not-preserved")
M_First == (R.copy = 0 /\ ~R.same) => Fail("first-copy-not-original")
End == PrintT(<<"END", tid>>)
=============================================================================
