------------------------------- MODULE Augment -------------------------------
(* C15 -- the 8 dihedral maps of rl4co.data.transforms.dihedral_8_augmentation on the
   integer grid 0..G x 0..G (coordinates x/G in the unit square; 1 - x becomes G - x).
   TLC checks for ALL pairs of grid points that every map preserves squared Euclidean
   distances and that map 0 is the identity; the terminal print is replayed into the
   real function (copy a of instance b must be row a*B + b of the output).            *)
EXTENDS Naturals, Integers, Sequences, TLC
CONSTANT G
VARIABLES p, q
vars == <<p, q>>
Pt == (0..G) \X (0..G)
Init == p \in Pt /\ q \in Pt
Next == UNCHANGED vars
Spec == Init /\ [][Next]_vars
Map(k, v) == LET x == v[1] y == v[2] IN
   CASE k = 0 -> <<x, y>>          [] k = 1 -> <<G - x, y>>
     [] k = 2 -> <<x, G - y>>      [] k = 3 -> <<G - x, G - y>>
     [] k = 4 -> <<y, x>>          [] k = 5 -> <<G - y, x>>
     [] k = 6 -> <<y, G - x>>      [] k = 7 -> <<G - y, G - x>>
D2(a, b) == (a[1] - b[1]) * (a[1] - b[1]) + (a[2] - b[2]) * (a[2] - b[2])
DistPreserved == \A k \in 0..7 : D2(Map(k, p), Map(k, q)) = D2(p, q)
FirstIsIdentity == Map(0, p) = p
InSquare == \A k \in 0..7 : Map(k, p) \in Pt
Emit == (q = <<0, 0>>) => PrintT(<<"A", p, [k \in 1..8 |-> Map(k - 1, p)]>>)
=============================================================================
