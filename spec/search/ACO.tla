-------------------------------- MODULE ACO --------------------------------
(* C15 / C12 -- the ANT-COLONY SEARCH of DeepACO as one state machine:
   rl4co/models/zoo/deepaco/antsystem.py (AntSystem.run, _one_step, _sampling, local_search, _update_results,
   _update_pheromone, _reward_map, _convert_final_action_to_matrix) as DeepACOPolicy.forward drives it in the
   val / test phases.

   A batch of NI instances (complete graphs on N nodes with integer distance matrices, the TSP of spec/env/TSP.tla)
   is searched by NAnts ants per instance for up to NIter iterations.  One iteration of the real code is

     Sample        _sampling: every ant of every instance constructs a tour.  The tours are INPUTS here (chosen
                   nondeterministically among the candidate tours of the instance): the sampler itself is C10's subject,
                   and the harness scripts the real sampler so that the real ants walk exactly these tours.
     LocalSearch   (use_local_search) env.local_search replaces every ant's tour by a tour that is not longer;
     Perturb       (use_nls, n_perturbations rounds) a candidate tour per ant (perturbation + local search, an input)
                   replaces the ant's tour iff its reward is STRICTLY better;
     UpdateResults _update_results: per instance the first ant with the maximal reward; stored iff nothing is stored yet
                   or `final_reward <= best_reward` (a tie replaces the stored tour by the newer one);
     UpdatePheromone _update_pheromone: pheromone <- decay * pheromone + delta, where ant k of instance i deposits
                   w(i,k) = Q * ((r_k - m_i) / (M_i - m_i))^2   (M_i / m_i: best / worst reward among the ants of instance i
                   in this iteration; _reward_map) on every DIRECTED edge a_j -> a_(j+1) and a_last -> a_first of its
                   action sequence (from_node = actions, to_node = roll(actions, -1): NOT symmetrised);
     Final         run() returns the stored tours as a matrix and the stored rewards.

   QUIRK AllEqual: when all ants of an instance obtain the same reward, (r_k - m) / (M - m) is 0 / 0.  The specification
   defines the deposit of such an iteration as TieDep * Q per ant; TieDep = 0 (nothing is deposited, the matrix only
   evaporates) is what the code does since the fix "ant system deposits nothing when all ants of an instance tie"
   (`(M - m).clamp_min(1e-10)`; before it the matrix received NaN and the next iteration's sampler raised).

   Rewards are the integers -length; pheromone values are exact rationals (Rat.tla).  The history variable `hist`
   keeps, per iteration, the tours as sampled (s) and as used after local search (u); all invariants are recomputed
   from it, independently of the incremental variables `best` and `pher`.                                            *)
EXTENDS Rat, Util, TLC, Json, IOUtils

CONSTANTS NAnts,        \* n_ants
          NIter,        \* runs of 1..NIter iterations
          DecN, DecD,   \* decay = DecN / DecD
          QN, QD,       \* Q = QN / QD  (rl4co default 1 / n_ants)
          P0N, P0D,     \* initial pheromone (rl4co: 0.0005 = 1 / 2000)
          TieDep,       \* 0 or 1, see AllEqual
          UseLS,        \* BOOLEAN use_local_search
          NPert         \* n_perturbations when use_nls (0 = use_nls off); requires UseLS

\* [insts |-> << [N |-> n, D |-> matrix, tours |-> <<candidate action sequences>>], ... >>]
Fam == JsonDeserialize(IOEnv.ACO_FILE)
NI == Len(Fam.insts)
I == 1..NI
K == 1..NAnts
Inst(i) == Fam.insts[i]
TIds(i) == 1..Len(Inst(i).tours)
Tour(i, j) == Inst(i).tours[j]
NN(i) == Inst(i).N
Dec == RNorm(<<DecN, DecD>>)
Q == RNorm(<<QN, QD>>)
P0 == RNorm(<<P0N, P0D>>)
Zero == <<0, 1>>
\* rational arithmetic on NORMALISED pairs that cancels before it multiplies (TLC integers are 32 bit; Rat.tla's RAdd / REq
\* cross-multiply the denominators first, which overflows for decay = 19/20 after three iterations)
LAdd(x, y) == LET g == GCD(x[2], y[2])  l == (x[2] \div g) * y[2]
              IN RNorm(<<x[1] * (l \div x[2]) + y[1] * (l \div y[2]), l>>)
LMul(x, y) == LET g1 == GCD(RAbs(x[1]), y[2])  g2 == GCD(RAbs(y[1]), x[2])
              IN IF x[1] = 0 \/ y[1] = 0 THEN <<0, 1>>
                 ELSE RNorm(<<(x[1] \div g1) * (y[1] \div g2), (x[2] \div g2) * (y[2] \div g1)>>)
LEq(x, y)  == RNorm(x) = RNorm(y)
LLeq(x, y) == LAdd(x, <<0 - y[1], y[2]>>)[1] <= 0
RECURSIVE LSumSeq(_)
LSumSeq(q) == IF q = <<>> THEN <<0, 1>> ELSE LAdd(Head(q), LSumSeq(Tail(q)))

(* ------------------------- the problem: tours and their value ------------------------- *)
IsTour(i, seq) == Len(seq) = NN(i) /\ ToSetU(seq) = 0..(NN(i) - 1)
Reward(i, seq) == 0 - CycleLen(Inst(i).D, seq)                 \* TSP objective of spec/env/TSP.tla
Rw(i, j) == Reward(i, Tour(i, j))
\* directed edges of the closed action sequence (from = actions, to = roll(actions, -1))
Edges(seq) == {<<seq[j], seq[(j % Len(seq)) + 1]>> : j \in 1..Len(seq)}

VARIABLES pc,      \* "sample" | "ls" | "nls" | "results" | "pher" | "done"
          it,      \* completed iterations
          np,      \* perturbation rounds done in this iteration
          inp,     \* inputs of this iteration: [s |-> tour ids as sampled [I -> [K -> id]], l |-> ids local search returned
                   \*   (<<>> if off), c |-> sequence of the candidate ids of the perturbation rounds]   (<<>> outside an iteration)
          cur,     \* tour ids in hand (after local search / perturbation rounds)
          pher,    \* AntSystem.pheromone   [I -> N x N matrix of rationals]
          best,    \* <<>> (final_actions is None) or [I -> [rew, tour]]  = (final_reward, final_actions)
          out,     \* what run() returned (<<>> before)
          hist     \* per completed _update_results: the inputs of the iteration and u |-> the ids handed to _update_results
vars == <<pc, it, np, inp, cur, pher, best, out, hist>>

\* all assignments of one candidate tour to every ant of every instance
Choices(i) == [K -> TIds(i)]
AllIds == UNION {TIds(i) : i \in I}
Joint == {f \in [I -> [K -> AllIds]] : \A i \in I : f[i] \in Choices(i)}

Init == /\ pc = "sample" /\ it = 0 /\ np = 0 /\ inp = <<>> /\ cur = <<>>
        /\ pher = [i \in I |-> [a \in 1..NN(i) |-> [b \in 1..NN(i) |-> P0]]]      \* ones_like(...).fill_(0.0005)
        /\ best = <<>> /\ out = <<>> /\ hist = <<>>

Sample(c) ==
  /\ pc = "sample" /\ it < NIter
  /\ inp' = [s |-> c, l |-> <<>>, c |-> <<>>] /\ cur' = c /\ np' = 0
  /\ pc' = IF UseLS THEN "ls" ELSE "results"
  /\ UNCHANGED <<it, pher, best, out, hist>>

\* env.local_search: any tour that is not longer (the identity included)
LocalSearch(l) ==
  /\ pc = "ls"
  /\ \A i \in I, k \in K : Rw(i, l[i][k]) >= Rw(i, cur[i][k])
  /\ cur' = l /\ inp' = [inp EXCEPT !.l = l]
  /\ pc' = IF NPert > 0 THEN "nls" ELSE "results"
  /\ UNCHANGED <<it, np, pher, best, out, hist>>

\* one round of the use_nls loop: improved_indices = new_rewards > best_rewards
Perturb(c) ==
  /\ pc = "nls"
  /\ cur' = [i \in I |-> [k \in K |-> IF Rw(i, c[i][k]) > Rw(i, cur[i][k]) THEN c[i][k] ELSE cur[i][k]]]
  /\ np' = np + 1 /\ inp' = [inp EXCEPT !.c = Append(@, c)]
  /\ pc' = IF np + 1 = NPert THEN "results" ELSE "nls"
  /\ UNCHANGED <<it, pher, best, out, hist>>

MaxRw(i, ids) == MaxSeq([k \in K |-> Rw(i, ids[k])])
MinRw(i, ids) == 0 - MaxSeq([k \in K |-> 0 - Rw(i, ids[k])])
\* reward.argmax(-1): the first ant attaining the maximum
ArgMax(i, ids) == CHOOSE k \in K : Rw(i, ids[k]) = MaxRw(i, ids) /\ \A j \in 1..(k - 1) : Rw(i, ids[j]) < MaxRw(i, ids)

UpdateResults ==
  /\ pc = "results"
  /\ LET cand(i) == [rew |-> MaxRw(i, cur[i]), tour |-> Tour(i, cur[i][ArgMax(i, cur[i])])]
     IN best' = IF best = <<>> THEN [i \in I |-> cand(i)]
                ELSE [i \in I |-> IF best[i].rew <= cand(i).rew THEN cand(i) ELSE best[i]]     \* `<=`: a tie replaces
  /\ hist' = Append(hist, [s |-> inp.s, l |-> inp.l, c |-> inp.c, u |-> cur])
  /\ pc' = "pher"
  /\ UNCHANGED <<it, np, inp, cur, pher, out>>

\* _reward_map for ant k of instance i, given the tour ids of the iteration
Weight(i, ids, k) ==
  LET M == MaxRw(i, ids)  m == MinRw(i, ids)
  IN IF M = m THEN (IF TieDep = 1 THEN Q ELSE Zero)                                  \* QUIRK AllEqual
     ELSE LMul(Q, LMul(<<Rw(i, ids[k]) - m, M - m>>, <<Rw(i, ids[k]) - m, M - m>>))
\* delta_pheromone[i, a, b]: every ant adds its weight once on every (distinct) directed edge of its tour
RECURSIVE SumOver(_, _, _, _, _)
SumOver(i, ids, a, b, k) ==
  IF k = 0 THEN Zero
  ELSE LAdd(SumOver(i, ids, a, b, k - 1),
            IF <<a, b>> \in Edges(Tour(i, ids[k])) THEN Weight(i, ids, k) ELSE Zero)
Delta(i, ids, a, b) == SumOver(i, ids, a, b, NAnts)

UpdatePheromone ==
  /\ pc = "pher"
  /\ pher' = [i \in I |-> [a \in 1..NN(i) |-> [b \in 1..NN(i) |->
                 LAdd(LMul(Dec, pher[i][a][b]), Delta(i, cur[i], a - 1, b - 1))]]]
  /\ it' = it + 1 /\ pc' = "sample" /\ inp' = <<>> /\ cur' = <<>>
  /\ UNCHANGED <<np, best, out, hist>>

\* run(): after n_iterations >= 1 iterations the stored tours / rewards are returned
Final ==
  /\ pc = "sample" /\ it >= 1
  /\ out' = best /\ pc' = "done"
  /\ UNCHANGED <<it, np, inp, cur, pher, best, hist>>

Next == \/ \E c \in Joint : Sample(c)
        \/ \E l \in Joint : LocalSearch(l)
        \/ \E c \in Joint : Perturb(c)
        \/ UpdateResults
        \/ UpdatePheromone
        \/ Final
Spec == Init /\ [][Next]_vars

(* ------------------------------ the clauses (recomputed from hist) ------------------------------ *)
\* every reward an ant of instance i ever delivered to _update_results, and every reward it sampled
UsedRw(i)    == {Rw(i, hist[t].u[i][k]) : t \in DOMAIN hist, k \in K}
SampledRw(i) == {Rw(i, hist[t].s[i][k]) : t \in DOMAIN hist, k \in K}
SetMax(S) == CHOOSE x \in S : \A y \in S : y <= x
\* C15: the stored reward of instance i is the maximum over ALL ants x iterations of instance i -- local-search results
\* included, and (local search never lengthens a tour) no sampled tour was better
BestIsMaxOfHistory == best # <<>> =>
   \A i \in I : /\ best[i].rew = SetMax(UsedRw(i))
                /\ \A r \in SampledRw(i) : r <= best[i].rew
\* C15: best-so-far never gets worse
BestMonotone == [][(best # <<>>) => \A i \in I : best'[i].rew >= best[i].rew]_vars
\* C15: the stored actions are a tour of the instance and, re-scored on the instance, give the stored reward
StoredTourHasStoredCost == best # <<>> =>
   \A i \in I : IsTour(i, best[i].tour) /\ Reward(i, best[i].tour) = best[i].rew
\* C15 / C12: the stored tour of instance i was walked by an ant of instance i
BestFromOwnAnt == best # <<>> =>
   \A i \in I : \E t \in DOMAIN hist, k \in K : best[i].tour = Tour(i, hist[t].u[i][k])
RECURSIVE Pow(_, _)
Pow(r, n) == IF n = 0 THEN <<1, 1>> ELSE LMul(r, Pow(r, n - 1))
DecPow == [n \in 0..NIter |-> Pow(Dec, n)]
\* the pheromone matrices only change in UpdatePheromone: the two clauses are evaluated in the states that follow it (and Init)
PherState == pc = "sample"
\* per completed iteration t, instance i, ant k: the deposit weight and the directed edges of the tour handed to the update
WTab == [t \in 1..it |-> [i \in I |-> [k \in K |-> Weight(i, hist[t].u[i], k)]]]
ETab == [t \in 1..it |-> [i \in I |-> [k \in K |-> Edges(Tour(i, hist[t].u[i][k]))]]]
\* C12: closed form -- pher_T = decay^T p0 + SUM_t decay^(T-t) delta_t, delta_t from the tours of the instance's OWN ants:
\* delta_t[i][a][b] = SUM of w(t,i,k) over the ants k of instance i whose tour contains the directed edge a -> b
\* (values are bound with `\A x \in {e}` so that TLC evaluates every table once per state)
PheromoneRecurrence == PherState =>
   \A w \in {WTab}, e \in {ETab} :
   \A d \in {[t \in 1..it |-> [i \in I |-> [a \in 0..(NN(i) - 1) |-> [b \in 0..(NN(i) - 1) |->
                LSumSeq([k \in K |-> IF <<a, b>> \in e[t][i][k] THEN w[t][i][k] ELSE Zero])]]]]} :
     \A i \in I : \A a, b \in 0..(NN(i) - 1) :
        LEq(pher[i][a + 1][b + 1],
            LAdd(LMul(DecPow[it], P0), LSumSeq([t \in 1..it |-> LMul(DecPow[it - t], d[t][i][a][b])])))
\* C12: an edge no ant of instance i ever walked carries the evaporated initial value, whatever the ants of the other
\* instances did; an edge walked by an own ant with positive weight carries more
PheromoneOnlyFromOwnAnts == PherState =>
   \A w \in {WTab}, e \in {ETab} :
   \A own \in {[i \in I |-> UNION {e[t][i][k] : t \in 1..it, k \in K}]},
      pos \in {[i \in I |-> UNION {IF w[t][i][k][1] > 0 THEN e[t][i][k] ELSE {} : t \in 1..it, k \in K}]},
      base \in {LMul(DecPow[it], P0)} :
     \A i \in I : \A a, b \in 0..(NN(i) - 1) :
        /\ <<a, b>> \notin own[i] => LEq(pher[i][a + 1][b + 1], base)
        /\ <<a, b>> \in pos[i] => ~LLeq(pher[i][a + 1][b + 1], base)
\* C15: what run() returns is the best of everything
FinalIsBest == pc = "done" =>
   /\ out = best
   /\ \A i \in I : out[i].rew = SetMax(UsedRw(i)) /\ Reward(i, out[i].tour) = out[i].rew
TypeOK == /\ pc \in {"sample", "ls", "nls", "results", "pher", "done"} /\ it \in 0..NIter /\ np \in 0..NPert
          /\ Len(hist) \in {it, it + 1} /\ (pc = "pher" <=> Len(hist) = it + 1)
          /\ \A i \in I : \A j \in TIds(i) : IsTour(i, Tour(i, j))
          /\ (NPert > 0 => UseLS)

(* ------------------------------ export for the replay into the real AntSystem ------------------------------ *)
\* one line per state in which the real objects are compared: after _update_results, after _update_pheromone, after run().
\* Tuples only (no records), so that the harness can read the lines as JSON after replacing the brackets.
Key == [t \in DOMAIN hist |-> <<hist[t].s, hist[t].l, hist[t].c, hist[t].u>>]
BestT(x) == [i \in I |-> <<x[i].rew, x[i].tour>>]
Emit == /\ (pc = "pher") => PrintT(<<"R", Key, BestT(best)>>)
        /\ (pc = "sample" /\ it > 0) => PrintT(<<"P", Key, pher>>)
        /\ (pc = "done") => PrintT(<<"F", Key, BestT(out)>>)
=============================================================================
