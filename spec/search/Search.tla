------------------------------- MODULE Search -------------------------------
(* C15 / C12 -- the TRANSDUCTIVE (test-time) SEARCH protocol of rl4co as ONE state machine:
   rl4co/models/common/transductive/base.py (TransductiveModel), rl4co/models/zoo/active_search/search.py (ActiveSearch),
   rl4co/models/zoo/eas/search.py + decoder.py (EAS, EASEmb, EASLay), driven by the Lightning fit loop over
   train_dataloader() (data set order, batch size B, last batch possibly partial, manual optimisation).

     Setup        TransductiveModel.setup + subclass setup: augmentation, original_policy_state, the data-set level buffers
                    AS : instance_rewards = zeros(n), instance_solutions = zeros(n, W)         (W = 2 * action-mask width)
                    EAS: two empty lists
     BatchStart   on_train_batch_start (policy.load_state_dict(original_policy_state)) + the head of training_step:
                    reset, augment (A copies), batchify (R parallel runs); max_reward = -inf, best_solutions = zeros(Bk, W)
     Iteration    one pass of the loop in training_step: roll out Bk instances x R runs x A augmentations x S starts
                    (EAS: S + 1, the extra rollout re-constructs the incumbent from iteration 2 on), incumbent update,
                    loss / backward (and OptSteps optimiser steps), run-time check
     BatchEnd     on_train_batch_end: write the incumbents into the data-set level buffers at the offset of the batch
     End          on_train_epoch_end: (EAS: concatenate the per-batch results), save, stop

   ROLLOUTS.  A solution is an action sequence of a CATALOGUE (World.insts[i].cands[start node + 1][c] = [acts, rew]: a
   complete solution of data-set instance i starting with that node, at its effective length, with its integer
   objective; the harness builds the catalogue from the problem definition and every entry is a real solution of a real
   instance).  The input of an Iteration is a CHOICE of catalogue entries for all rollouts; rewards are NOT free inputs:
   they are the objectives of the chosen solutions, so "stored solution <-> stored reward" is meaningful.
   Rows are laid out as the code lays them out (batchify: copy j of row q at j * rows + q):
       flat row f (1-based), f - 1 = (s-1) * (R*A*Bk) + (r-1) * (A*Bk) + (a-1) * Bk + (b-1)
   All rows of an iteration are padded with action 0 to the common length L (the decoding loop runs until every row is
   done); the incumbent buffer is written on its first L columns.

   QUIRK FLAGS (CONSTANTS; the default configuration of the harness is the INTENDED behaviour, i.e. all FALSE / 0 except
   Aliased and OptSteps which are invisible to the properties on the pinned tree):
     StaleTail    the code writes  best_solutions[row, :L] = ...  : columns beyond L keep what an EARLIER, longer incumbent
                  left there (ActiveSearch on variable-length problems)
     EASStartMod  forward_eas takes  select_start_nodes(td, S + 1) % S : on depot problems customer S becomes node 0
     OptSteps     optimiser steps per iteration (the pinned code computes the loss and calls backward, but never opt.step())
     Aliased      original_policy_state = policy.state_dict() shares storage with the live parameters, so
                  load_state_dict(original_policy_state) restores nothing
   The variables are what the real objects hold; seen / prev / hist are history variables.                          *)
EXTENDS Naturals, Integers, Sequences, FiniteSets, TLC, Json, IOUtils

CONSTANTS Method,        \* "AS" | "EAS"
          NData, B, A, R, MaxIters,
          C,             \* catalogue entries per (instance, start node) the choices range over
          DevSlots,      \* per-instance rollout slots (1..S1*R*A) at which a choice may deviate from its base entry
          Stops,         \* iterations after which the run-time limit may be found exceeded (subset of 1..MaxIters)
          Focuses,       \* batches (0-based) that may be the focus batch
          StaleTail, EASStartMod, OptSteps, Aliased

World == JsonDeserialize(IOEnv.WORLD_FILE)
NegInf == 0 - 2000000000        \* below every reward in integer units (TLC integers are 32 bit)

VARIABLES par,       \* run parameters [method, env, NN, S, W, n, B, A, R, maxIters, stopAt]  (never change)
          focus,     \* the batch whose iterations range over all choices (the others take a fixed base choice)
          pc,        \* "pick" (choose stopAt / focus) | "init" | "bstart" | "iter" | "bend" | "end" | "done"
          bi,        \* batch_idx (0-based)
          it,        \* iterations of the current batch done so far
          ver,       \* optimiser steps applied to the LIVE policy parameters since the originals
          maxRew,    \* max_reward, one entry per row of the batch
          bestSol,   \* best_solutions, one row of W columns per row of the batch
          instRew,   \* instance_rewards   (AS: n entries; EAS: the concatenation of the per-batch tensors appended so far)
          instSol,   \* instance_solutions (rows of W columns)
          rolls,     \* the rollouts of the last iteration in flat row order: [i, rew, acts (, inc: re-constructed incumbent)]
          seen,      \* seen[i] = {<<rew, effective acts>>} of ALL rollouts of data-set instance i so far   (history)
          prev,      \* [maxRew, instRew, instSol] before the last action                                  (history)
          hist       \* the actions so far with their inputs                                              (history)
vars == <<par, focus, pc, bi, it, ver, maxRew, bestSol, instRew, instSol, rolls, seen, prev, hist>>

Min2(x, y) == IF x <= y THEN x ELSE y
Max2(x, y) == IF x >= y THEN x ELSE y
RECURSIVE MaxOf(_)
MaxOf(S) == LET x == CHOOSE y \in S : TRUE IN IF S = {x} THEN x ELSE Max2(x, MaxOf(S \ {x}))
Zeros(k) == [j \in 1..k |-> 0]

(* ------------------------------ layout ------------------------------ *)
NB      == (par.n + par.B - 1) \div par.B                  \* number of batches
BkOf(k) == Min2(par.B, par.n - k * par.B)                  \* rows of batch k (the last one may be partial)
Bk      == BkOf(bi)
Offset(k) == k * par.B                                     \* data-set position of row 1 of batch k, minus one
Inst(k, b) == Offset(k) + b                                \* data-set index (1-based) of row b of batch k
S1      == IF par.method = "EAS" THEN par.S + 1 ELSE par.S \* rollouts per (instance, run, augmentation)
Copies  == par.R * par.A
NRows   == S1 * Copies * Bk
RowB(f)  == ((f - 1) % Bk) + 1                             \* batch row that owns flat row f  (batchify: f mod rows)
SlotS(f) == ((f - 1) \div (Copies * Bk)) + 1               \* start slot 1..S1
CopyOf(f) == (((f - 1) % (Copies * Bk)) \div Bk) + 1       \* (run, augmentation) copy 1..R*A
SlotK(f) == (SlotS(f) - 1) * Copies + CopyOf(f)            \* per-instance rollout slot 1..S1*R*A
\* EAS regroups the flat rows per instance with unbatchify: entry [x][c][s] (instance row x, copy c = (run, augmentation),
\* start s) is flat row (s-1)*Copies*Bk + (c-1)*Bk + x
EASGroupRow(x, c, s) == (s - 1) * (Copies * Bk) + (c - 1) * Bk + x
\* ... and ranks reward.reshape(Bk, Copies*S1): position (c-1)*S1 + s
EASRank(f) == (CopyOf(f) - 1) * S1 + SlotS(f)

\* select_start_nodes (rl4co.utils.ops): TSP node j mod NN; depot problems customer (j mod N) + 1, N = NN - 1
EnvStart(j) == IF par.env = "tsp" THEN j % par.NN ELSE (j % (par.NN - 1)) + 1
StartOf(s)  == IF par.method = "EAS" /\ EASStartMod THEN EnvStart(s - 1) % par.S ELSE EnvStart(s - 1)

(* ------------------------------ solutions ------------------------------ *)
\* effective length of a (padded) action row: TSP tours have NN actions; on depot problems the solution ends with the last
\* customer (everything after it is padding with the depot)
LastNonZero(seq) == IF \E j \in DOMAIN seq : seq[j] # 0 THEN CHOOSE j \in DOMAIN seq : seq[j] # 0 /\ \A m \in DOMAIN seq : m > j => seq[m] = 0
                    ELSE 0
EffLen(seq) == IF par.env = "tsp" THEN Min2(par.NN, Len(seq)) ELSE LastNonZero(seq)
Eff(seq)    == SubSeq(seq, 1, EffLen(seq))
PadTo(seq, L) == [j \in 1..L |-> IF j <= Len(seq) THEN seq[j] ELSE 0]
\* best_solutions[row, :L] = acts
Write(buf, acts) == [j \in 1..par.W |-> IF j <= Len(acts) THEN acts[j] ELSE IF StaleTail THEN buf[j] ELSE 0]

Entry(i, v, c) == World.insts[i].cands[v + 1][c]
AllEntries(i) == UNION {{World.insts[i].cands[v][c] : c \in DOMAIN World.insts[i].cands[v]} : v \in DOMAIN World.insts[i].cands}
\* objective of a solution that is replayed (EAS incumbent): looked up by content
RewOf(i, eff) == IF \E e \in AllEntries(i) : e.acts = eff THEN (CHOOSE e \in AllEntries(i) : e.acts = eff).rew ELSE NegInf

(* ------------------------------ choices ------------------------------ *)
\* every rollout of row b takes entry number base (shifted by the row, so that the rows differ) except ONE rollout (row, slot)
Choices == {[base |-> x, row |-> 0, slot |-> 0, c |-> x] : x \in 1..C}
           \cup {ch \in [base : 1..C, row : 1..Bk, slot : DevSlots, c : 1..C] : ch.c # ch.base}
BaseChoice(k) == [base |-> (k % C) + 1, row |-> 0, slot |-> 0, c |-> (k % C) + 1]
EntryNo(ch, b, k) == IF ch.row = b /\ ch.slot = k THEN ch.c ELSE ((ch.base + b - 2) % C) + 1
IsIncumbent(f) == par.method = "EAS" /\ it > 0 /\ SlotS(f) = S1
\* the unpadded solution of flat row f under choice ch, and its objective
RawActs(ch, f) == IF IsIncumbent(f) THEN Eff(bestSol[RowB(f)])
                  ELSE Entry(Inst(bi, RowB(f)), StartOf(SlotS(f)), EntryNo(ch, RowB(f), SlotK(f))).acts
RawRew(ch, f)  == IF IsIncumbent(f) THEN RewOf(Inst(bi, RowB(f)), Eff(bestSol[RowB(f)]))
                  ELSE Entry(Inst(bi, RowB(f)), StartOf(SlotS(f)), EntryNo(ch, RowB(f), SlotK(f))).rew
BuildRolls(ch) == LET L == MaxOf({Len(RawActs(ch, f)) : f \in 1..NRows})
                  IN [f \in 1..NRows |-> [i |-> Inst(bi, RowB(f)), rew |-> RawRew(ch, f), acts |-> PadTo(RawActs(ch, f), L),
                                           inc |-> IsIncumbent(f)]]

(* ------------------------------ actions ------------------------------ *)
Init == /\ par = [method |-> Method, env |-> World.env, NN |-> World.NN, S |-> World.S, W |-> World.W, n |-> NData, B |-> B,
                  A |-> A, R |-> R, maxIters |-> MaxIters, stopAt |-> 0]
        /\ focus = 0 /\ pc = "pick" /\ bi = 0 /\ it = 0 /\ ver = 0 /\ maxRew = <<>> /\ bestSol = <<>> /\ instRew = <<>> /\ instSol = <<>>
        /\ rolls = <<>> /\ seen = <<>> /\ prev = <<>> /\ hist = <<>>

\* the inputs that stay fixed along a run: the iteration after which the run-time limit is exceeded, and the focus batch
Pick(st, fo) == /\ pc = "pick"
                /\ par' = [par EXCEPT !.stopAt = st] /\ focus' = fo /\ pc' = "init"
                /\ UNCHANGED <<bi, it, ver, maxRew, bestSol, instRew, instSol, rolls, seen, prev, hist>>

Setup == /\ pc = "init"
         /\ instRew' = IF par.method = "AS" THEN Zeros(par.n) ELSE <<>>
         /\ instSol' = IF par.method = "AS" THEN [i \in 1..par.n |-> Zeros(par.W)] ELSE <<>>
         /\ seen' = [i \in 1..par.n |-> {}]
         /\ prev' = [maxRew |-> <<>>, instRew |-> <<>>, instSol |-> <<>>]
         /\ pc' = "bstart" /\ hist' = Append(hist, <<"setup">>)
         /\ UNCHANGED <<par, focus, bi, it, ver, maxRew, bestSol, rolls>>

BatchStart == /\ pc = "bstart"
              /\ ver' = IF Aliased THEN ver ELSE 0                 \* policy.load_state_dict(original_policy_state)
              /\ maxRew' = [b \in 1..Bk |-> NegInf] /\ bestSol' = [b \in 1..Bk |-> Zeros(par.W)]
              /\ it' = 0 /\ rolls' = <<>>
              /\ prev' = [maxRew |-> maxRew, instRew |-> instRew, instSol |-> instSol]
              /\ pc' = "iter" /\ hist' = Append(hist, <<"bstart">>)
              /\ UNCHANGED <<par, focus, bi, instRew, instSol, seen>>

NIter == Min2(par.maxIters, par.stopAt)      \* `for i in range(max_iters)` ... `if elapsed > max_runtime: break`

\* first flat row (in the order `ord`) among the rows `F` that attains the maximum reward
ArgMax(rs, F, ord(_)) == LET mx == MaxOf({rs[f].rew : f \in F})
                         IN CHOOSE f \in F : rs[f].rew = mx /\ \A g \in F : rs[g].rew = mx => ord(f) <= ord(g)
Ident(f) == f

\* the incumbent update of ONE iteration, given its rollouts rs (flat row order, all rows padded to one length)
IterCore(rs) ==
  /\ IF par.method = "AS"
       THEN \* max_reward_iter = out["reward"].max(); strictly better -> row argmax() replaces the incumbent of THE instance
            LET F  == DOMAIN rs
                mx == MaxOf({rs[f].rew : f \in F})
            IN IF mx > maxRew[1]
                 THEN /\ maxRew' = <<mx>> /\ bestSol' = <<Write(bestSol[1], rs[ArgMax(rs, F, Ident)].acts)>>
                 ELSE UNCHANGED <<maxRew, bestSol>>
       ELSE \* max_reward = reward.max over (augmentation, start) of each row -- OF THIS ITERATION, incumbent rollout included;
            \* topk(reward.reshape(rows, -1), 1) names the solution that is copied into best_solutions
            /\ maxRew' = [b \in 1..Bk |-> MaxOf({rs[f].rew : f \in {g \in DOMAIN rs : RowB(g) = b}})]
            /\ bestSol' = [b \in 1..Bk |-> Write(bestSol[b], rs[ArgMax(rs, {g \in DOMAIN rs : RowB(g) = b}, EASRank)].acts)]
  /\ seen' = [i \in DOMAIN seen |-> seen[i] \cup {<<rs[f].rew, Eff(rs[f].acts)>> : f \in {g \in DOMAIN rs : rs[g].i = i}}]
  /\ prev' = [maxRew |-> maxRew, instRew |-> instRew, instSol |-> instSol]
  /\ rolls' = rs
  /\ it' = it + 1
  /\ ver' = ver + OptSteps

Iteration(ch) == /\ pc = "iter" /\ it < NIter
                 /\ IterCore(BuildRolls(ch))
                 /\ pc' = IF it + 1 = NIter THEN "bend" ELSE "iter"
                 /\ hist' = Append(hist, <<"iter", ch.base, ch.row, ch.slot, ch.c>>)
                 /\ UNCHANGED <<par, focus, bi, instRew, instSol>>

\* on_train_batch_end.  AS: instance_rewards[batch_idx] = ..., instance_solutions[batch_idx, :] = ...  (batch size one);
\* EAS: append.  Written as "the Bk rows of the batch go to data-set positions Offset + 1 .. Offset + Bk".
BatchEndCore ==
  /\ IF par.method = "AS"
       THEN /\ instRew' = [i \in 1..par.n |-> IF i \in (Offset(bi) + 1)..(Offset(bi) + Bk) THEN maxRew[i - Offset(bi)] ELSE instRew[i]]
            /\ instSol' = [i \in 1..par.n |-> IF i \in (Offset(bi) + 1)..(Offset(bi) + Bk) THEN bestSol[i - Offset(bi)] ELSE instSol[i]]
       ELSE /\ instRew' = instRew \o maxRew /\ instSol' = instSol \o bestSol
  /\ prev' = [maxRew |-> maxRew, instRew |-> instRew, instSol |-> instSol]
  /\ bi' = bi + 1
  /\ pc' = IF bi + 1 = NB THEN "end" ELSE "bstart"
BatchEnd == /\ pc = "bend" /\ BatchEndCore /\ hist' = Append(hist, <<"bend">>)
            /\ UNCHANGED <<par, focus, it, ver, maxRew, bestSol, rolls, seen>>

\* on_train_epoch_end: the buffers are what is reported / saved (EAS: rewards and solutions concatenated over the batches)
End == /\ pc = "end" /\ pc' = "done" /\ hist' = Append(hist, <<"end">>)
       /\ prev' = [maxRew |-> maxRew, instRew |-> instRew, instSol |-> instSol]
       /\ UNCHANGED <<par, focus, bi, it, ver, maxRew, bestSol, instRew, instSol, rolls, seen>>

PickAny == \E st \in Stops, fo \in Focuses : Pick(st, fo)
Iterate == \E ch \in (IF bi = focus THEN Choices ELSE {BaseChoice(bi)}) : Iteration(ch)
Next == PickAny \/ Setup \/ BatchStart \/ Iterate \/ BatchEnd \/ End
Spec == Init /\ [][Next]_vars

(* ------------------------------ the clauses ------------------------------ *)
\* print-only: TLC never halts, so every run is still exported; the harness reports MODELFAIL lines as model drift and
\* replays the run on the real code, where the independent monitors of SearchTrace decide
Key == <<focus, par.stopAt, hist>>
MFail(name) == PrintT(<<"MODELFAIL", name, Key>>)
Live == pc \in {"iter", "bend"} /\ it > 0
Best(i) == IF seen[i] = {} THEN NegInf ELSE MaxOf({x[1] : x \in seen[i]})
\* C15: the incumbent reward of every row is the maximum over ALL rollouts of its instance so far ...
BestIsMax == (Live /\ ~\A b \in 1..Bk : maxRew[b] = Best(Inst(bi, b))) => MFail("BestIsMax")
\* ... the incumbent solution is a rollout of THAT instance that achieved it (so re-scoring it gives the stored reward) ...
SolAchieves == (Live /\ ~\A b \in 1..Bk : <<maxRew[b], Eff(bestSol[b])>> \in seen[Inst(bi, b)]) => MFail("SolAchieves")
\* ... and it never gets worse over the iterations
Monotone == (Live /\ it > 1 /\ ~\A b \in 1..Bk : maxRew[b] >= prev.maxRew[b]) => MFail("Monotone")
\* C12: every rollout is attributed to the instance whose data it was rolled out on; EAS' regrouping keeps the rows with
\* their instance
RowsKeepInstance == (Live /\ ~\A f \in DOMAIN rolls : rolls[f].i = Inst(bi, RowB(f))) => MFail("RowsKeepInstance")
EASGroupOwn == (par # <<>> /\ pc = "iter" /\ par.method = "EAS" /\
                  ~\A x \in 1..Bk, c \in 1..Copies, s \in 1..S1 : RowB(EASGroupRow(x, c, s)) = x)
               => MFail("EASGroupOwn")
\* C12: forced first moves are feasible first moves (never the depot), pairwise different over the S start slots
StartsOK == (par # <<>> /\ pc = "iter" /\
               ~(/\ \A s \in 1..par.S : StartOf(s) \in (IF par.env = "tsp" THEN 0..(par.NN - 1) ELSE 1..(par.NN - 1))
                 /\ \A s, t \in 1..par.S : s # t => StartOf(s) # StartOf(t))) => MFail("StartsOK")
\* C12: BatchEnd writes the rows of THIS batch at their data-set positions and touches no other row
Written(k) == \A b \in 1..BkOf(k) : instRew[Inst(k, b)] = prev.maxRew[b] /\ instSol[Inst(k, b)] = bestSol[b]
BuffersOwnRows == (pc \in {"bstart", "end"} /\ bi > 0 /\
                     ~(/\ Written(bi - 1)
                       /\ \A i \in DOMAIN prev.instRew : i \notin (Offset(bi - 1) + 1)..(Offset(bi - 1) + BkOf(bi - 1))
                              => (instRew[i] = prev.instRew[i] /\ instSol[i] = prev.instSol[i]))) => MFail("BuffersOwnRows")
\* C15: what is reported at the end: for EVERY instance the best of all its rollouts with a solution that achieved it
FinalBest == (pc \in {"end", "done"} /\
                ~(/\ Len(instRew) = par.n /\ Len(instSol) = par.n
                  /\ \A i \in 1..par.n : instRew[i] = Best(i) /\ <<instRew[i], Eff(instSol[i])>> \in seen[i])) => MFail("FinalBest")
\* independence of the batches: every batch starts from the ORIGINAL parameters
ParamsAtBatchStart == (pc = "iter" /\ it = 0 /\ ver # 0) => MFail("ParamsAtBatchStart")
\* the stopping rule as coded
IterCount == (pc = "bend" /\ it # Min2(par.maxIters, par.stopAt)) => MFail("IterCount")
TypeOK == /\ pc \in {"pick", "init", "bstart", "iter", "bend", "end", "done"}
          /\ pc \in {"iter", "bend"} => (Len(maxRew) = Bk /\ Len(bestSol) = Bk /\ \A b \in 1..Bk : Len(bestSol[b]) = par.W)

\* every state with its history, for the replay into the real objects
Abs == <<pc, bi, it, ver, maxRew, bestSol, instRew, instSol, rolls>>
Emit == pc # "pick" => PrintT(<<"S", focus, par.stopAt, hist, Abs>>)
=============================================================================
