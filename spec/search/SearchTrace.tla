----------------------------- MODULE SearchTrace -----------------------------
(* The search protocol of Search.tla on executions of the REAL classes (ActiveSearch, EAS, EASEmb, EASLay), driven hook by
   hook by the harness or by a real RL4COTrainer.fit, with a table policy on exact instances or with a real
   AttentionModelPolicy on random instances.  One ndjson record per run:
     method, env, NN, S, W, n, B, A, R, maxIters, stopAt, eps,
     insts[i] = the ORIGINAL (un-augmented) data-set instance i as integers [N, D, dem, cap]   (spec/env/TSP.tla, CVRP.tla)
     ev = events
       [a |-> "setup",  obs |-> buffers]
       [a |-> "bstart", bi, obs |-> [paramsOk, ver]]      paramsOk: the live policy parameters equal a deep copy the harness
                                                           took right after setup
       [a |-> "iter", bi, it, rolls, obs |-> [maxRew, bestSol, ver]]
             rolls = ALL rollouts of the iteration in the row order of the code: i = the data-set instance the row was rolled
             out on, recognised BY CONTENT (pairwise distances / demands of the row's own state) -- not by its position
             (0: the row's data is congruent to NO instance of the data set);
             rew = the reward the environment returned (integer units); acts = the actions (padded to the common length)
             obs = the locals max_reward / best_solutions of training_step right after the incumbent update
       [a |-> "bend", bi, obs |-> buffers]                after on_train_batch_end
       [a |-> "end",  obs |-> buffers]                    after on_train_epoch_end (what is reported / saved)
     buffers = [instRew, instSol, rshape, sshape, ver]: instance_rewards, the rows of instance_solutions, their shapes.
   The MONITORS judge the logged values with the problem definitions (every rollout and every stored solution is RE-SCORED
   on the ORIGINAL instance) and with `seen`, the set of all rollouts of an instance so far, kept BY CONTENT.
   Failing clauses print <<"FAIL", tid, clause, l>>; protocol-level disagreement with Search.tla prints <<"DRIFT", tid, l>>;
   nothing halts TLC.                                                                                                 *)
EXTENDS Search

T == INSTANCE TSP
V == INSTANCE CVRP

Traces == ndJsonDeserialize(IOEnv.TRACE_FILE)
VARIABLES tid, l, lastBuf, bufBefore, ok
tvars == <<tid, l, lastBuf, bufBefore, ok>>
Tr == Traces[tid]
Ev(k) == Tr.ev[k]
Cur == Ev(l)
O == Cur.obs
On == l > 0

TInit == /\ tid \in 1..Len(Traces) /\ l = 0 /\ lastBuf = <<>> /\ bufBefore = <<>> /\ ok = TRUE
         /\ par = [method |-> Tr.method, env |-> Tr.env, NN |-> Tr.NN, S |-> Tr.S, W |-> Tr.W, n |-> Tr.n, B |-> Tr.B,
                   A |-> Tr.A, R |-> Tr.R, maxIters |-> Tr.maxIters, stopAt |-> Tr.stopAt]
         /\ focus = 0 /\ pc = "init" /\ bi = 0 /\ it = 0 /\ ver = 0 /\ maxRew = <<>> /\ bestSol = <<>> /\ instRew = <<>> /\ instSol = <<>>
         /\ rolls = <<>> /\ seen = <<>> /\ prev = <<>> /\ hist = <<>>

\* the event can be taken by the protocol in its current state
Fits(e) == CASE e.a = "setup"  -> pc = "init"
             [] e.a = "bstart" -> pc = "bstart" /\ e.bi = bi
             [] e.a = "iter"   -> pc = "iter" /\ e.bi = bi /\ it < par.maxIters /\ Len(e.rolls) = NRows
                                  /\ \A f \in DOMAIN e.rolls : e.rolls[f].i \in 0..par.n /\ Len(e.rolls[f].acts) = Len(e.rolls[1].acts)
             [] e.a = "bend"   -> pc = "iter" /\ e.bi = bi /\ it > 0
             [] e.a = "end"    -> pc = "end"
             [] OTHER -> FALSE
TNext == /\ l < Len(Tr.ev) /\ l' = l + 1 /\ UNCHANGED tid
         /\ LET e == Ev(l + 1) IN
              IF ok /\ Fits(e)
                THEN /\ CASE e.a = "setup"  -> Setup
                          [] e.a = "bstart" -> BatchStart
                          [] e.a = "iter"   -> /\ IterCore(e.rolls) /\ pc' = "iter" /\ hist' = Append(hist, <<"iter">>)
                                               /\ UNCHANGED <<par, focus, bi, instRew, instSol>>
                          [] e.a = "bend"   -> /\ BatchEndCore /\ hist' = Append(hist, <<"bend">>)
                                               /\ UNCHANGED <<par, focus, it, ver, maxRew, bestSol, rolls, seen>>
                          [] e.a = "end"    -> End
                     /\ lastBuf' = IF e.a \in {"setup", "bend"} THEN e.obs ELSE lastBuf
                     /\ bufBefore' = lastBuf
                     /\ ok' = TRUE
                ELSE \* the real code left the protocol: the rest of the run is only consumed
                     /\ ok' = FALSE /\ UNCHANGED <<vars, lastBuf, bufBefore>>
TSpec == TInit /\ [][TNext]_<<tvars, vars>>

Fail(c) == PrintT(<<"FAIL", tid, c, l>>)
Is(a) == On /\ ok /\ Cur.a = a
NearE(x, y) == (x - y <= Tr.eps) /\ (y - x <= Tr.eps)

(* ---- the problem definitions: re-scoring on the ORIGINAL instance ---- *)
OI(i) == Tr.insts[i]
Feas(i, sol) == IF Tr.env = "tsp" THEN T!Feasible(OI(i), sol) ELSE V!Feasible(OI(i), sol)
Obj(i, sol)  == IF Tr.env = "tsp" THEN T!Objective(OI(i), sol) ELSE V!Objective(OI(i), sol)
FirstMoves(i) == IF Tr.env = "tsp" THEN T!Mask(OI(i), T!Init0(OI(i))) ELSE V!Mask(OI(i), V!Init0(OI(i)))
\* a stored row is a solution of instance i worth r
Scores(i, row, r) == Feas(i, Eff(row)) /\ NearE(Obj(i, Eff(row)), r)
BatchInsts == {Inst(bi, b) : b \in 1..Bk}
SeenBest(i) == IF seen[i] = {} THEN NegInf ELSE MaxOf({x[1] : x \in seen[i]})

(* ---- C12: rollouts keep their instance ---- *)
\* the rows rolled out for a batch are rows of ITS instances, each instance replicated equally often
M_RollBatch == (Is("iter") /\ ~(/\ \A f \in DOMAIN Cur.rolls : Cur.rolls[f].i \in BatchInsts
                                /\ \A i \in BatchInsts : Cardinality({f \in DOMAIN Cur.rolls : Cur.rolls[f].i = i}) = S1 * Copies))
               => Fail("rollouts-of-own-batch")
\* every rollout is a solution of the instance it was rolled out on, and its reward is the objective ON THE ORIGINAL instance
M_RollScore == (Is("iter") /\ ~\A f \in DOMAIN Cur.rolls : Cur.rolls[f].i > 0 => Scores(Cur.rolls[f].i, Cur.rolls[f].acts, Cur.rolls[f].rew))
               => Fail("rollout-reward-is-objective-on-original")
\* forced first moves are moves the environment offers at the start
M_Start == (Is("iter") /\ ~\A f \in DOMAIN Cur.rolls : Cur.rolls[f].i > 0 => Cur.rolls[f].acts[1] \in FirstMoves(Cur.rolls[f].i))
           => Fail("start-node-feasible")
(* ---- C15: best of ALL rollouts so far, achieved by the stored solution, never worse ---- *)
RowsOK == Len(O.maxRew) = Bk /\ Len(O.bestSol) = Bk
M_Best == (Is("iter") /\ ~(RowsOK /\ \A b \in 1..Bk : NearE(O.maxRew[b], SeenBest(Inst(bi, b)))))
          => Fail("incumbent-is-best-of-all-rollouts")
M_Sol == (Is("iter") /\ RowsOK /\ ~\A b \in 1..Bk : Scores(Inst(bi, b), O.bestSol[b], O.maxRew[b]))
         => Fail("stored-solution-rescored-on-original")
M_SolSeen == (Is("iter") /\ RowsOK /\ ~\A b \in 1..Bk : \E x \in seen[Inst(bi, b)] : x[2] = Eff(O.bestSol[b]) /\ NearE(x[1], O.maxRew[b]))
             => Fail("stored-solution-is-a-rollout-of-its-instance")
M_Mono == (Is("iter") /\ l > 1 /\ Ev(l - 1).a = "iter" /\ RowsOK /\ Len(Ev(l - 1).obs.maxRew) = Bk /\
             ~\A b \in 1..Bk : O.maxRew[b] + Tr.eps >= Ev(l - 1).obs.maxRew[b]) => Fail("incumbent-never-worse")
(* ---- C12: the result buffers ---- *)
\* after on_train_batch_end the rows of the batch just finished hold its incumbents; no other row has changed
DoneBatch == bi - 1
Row(i) == i - Offset(DoneBatch)
LastIter == Ev(l - 1).obs
M_Buffers == (Is("bend") /\
                ~(/\ Len(O.instRew) = Len(instRew) /\ Len(O.instSol) = Len(instSol)
                  /\ \A i \in DOMAIN instRew :
                       IF i \in (Offset(DoneBatch) + 1)..(Offset(DoneBatch) + BkOf(DoneBatch))
                         THEN O.instRew[i] = LastIter.maxRew[Row(i)] /\ O.instSol[i] = LastIter.bestSol[Row(i)]
                         ELSE i \in DOMAIN bufBefore.instRew => (O.instRew[i] = bufBefore.instRew[i] /\ O.instSol[i] = bufBefore.instSol[i])))
             => Fail("batch-results-at-own-rows")
\* what is reported at the end: one reward and one solution row per data-set instance, index-aligned, for EVERY instance the
\* best of all its rollouts and a solution that achieves it
M_FinalShape == (Is("end") /\ ~(O.rshape = <<par.n>> /\ O.sshape = <<par.n, par.W>>)) => Fail("final-buffers-one-row-per-instance")
M_Final == (Is("end") /\ Len(O.instRew) = par.n /\ Len(O.instSol) = par.n /\
              ~\A i \in 1..par.n : NearE(O.instRew[i], SeenBest(i)) /\ Scores(i, O.instSol[i], O.instRew[i]))
           => Fail("reported-best-of-all-rollouts")
(* ---- independence of the batches, stopping rule ---- *)
M_Params == (Is("bstart") /\ ~O.paramsOk) => Fail("parameters-restored-at-batch-start")
M_IterCount == (Is("bend") /\ it # Min2(par.maxIters, par.stopAt)) => Fail("iteration-count")
(* ---- protocol-level agreement with Search.tla (never a verdict) ---- *)
M_Drift == (On /\ (~ok \/ (Cur.a \in {"iter", "bstart"} /\ O.ver # ver)
                       \/ (Cur.a = "iter" /\ RowsOK /\ O.maxRew # maxRew)))
           => PrintT(<<"DRIFT", tid, l>>)
End_ == (l = Len(Tr.ev)) => PrintT(<<"END", tid>>)
=============================================================================
