------------------------------ MODULE ACOTrace ------------------------------
(* C15 / C12 on executions RECORDED FROM THE REAL AntSystem (rl4co/models/zoo/deepaco/antsystem.py) running inside the
   real DeepACOPolicy (val / test phase) with its real sampler on the real TSPEnv / CVRPEnv: the clauses of ACO.tla as
   monitors over logged values.  One ndjson record per (run, instance i of the batch):

     kind "tsp" | "cvrp"      n   dimension of the pheromone matrix (TSP: nodes; CVRP: customers + depot)
     nants, decn / decd (decay), q8 (Q), tie8 (deposit of an ant when all ants of the instance tie, see ACO.tla AllEqual)
     pher0                    the matrix before the first iteration
     it[l]                    one entry per iteration, observed through wrappers around _update_results / _update_pheromone:
        tours[k]              action sequence of ant k of THIS instance as handed to _update_results (after local search)
        rewL[k]               the reward the library attached to it           rew[k]  the harness' own float64 re-scoring
        wL[k]                 _reward_map's output for the ant                w[k]    Q ((r_k - m) / (M - m))^2 recomputed
        pher                  the instance's matrix after _update_pheromone
        bestR, bestA          final_reward[i], final_actions[i] after _update_results
        bestS, bestOK         bestA re-scored / checked for feasibility by the harness on the instance
     out                      what run() returned for the instance: rew, act, score (re-scored), ok (feasible), done
     crashed                  the library raised before run() returned (reported by the harness; the iterations completed
                              until then are still judged)
   Units: rewards 1e-6, pheromone and weights 1e-8 (a NaN / infinite value is logged as -1).
   The specification walks the iterations (variable l); failing clauses print <<"FAIL", tid, clause, l>>.            *)
EXTENDS Naturals, Integers, Sequences, FiniteSets, TLC, Json, IOUtils

Recs == ndJsonDeserialize(IOEnv.TRACE_FILE)
VARIABLES tid, l
vars == <<tid, l>>
R == Recs[tid]
T == Len(R.it)
Init == tid \in 1..Len(Recs) /\ l = 0
Next == l <= T /\ l' = l + 1 /\ UNCHANGED tid
Spec == Init /\ [][Next]_vars

Abs(x) == IF x < 0 THEN 0 - x ELSE x
Fail(c) == PrintT(<<"FAIL", tid, c, l>>)
SetOf(s) == {s[j] : j \in DOMAIN s}
Ants == 1..R.nants
Nodes == 1..R.n
RTol(r) == 10 + Abs(r) \div 100000            \* rewards: 1e-5 relative + 1e-5 absolute
WTol == 50                                   \* weights: 5e-7
PTol(p) == 30 + Abs(p) \div 500000            \* pheromone: 2e-6 relative + 3e-7 absolute
Cur == R.it[l]
InIter == l >= 1 /\ l <= T
\* decay * p without leaving 32 bits
Decay(p) == (p \div R.decd) * R.decn + ((p % R.decd) * R.decn) \div R.decd
\* directed edges of the closed action sequence: from = actions, to = roll(actions, -1); an edge walked twice counts once
\* (index_put without accumulation)
Edges(seq) == {<<seq[j], seq[(j % Len(seq)) + 1]>> : j \in 1..Len(seq)}
RECURSIVE SumW(_, _, _, _)
SumW(a, b, k, it) == IF k = 0 THEN 0
                     ELSE SumW(a, b, k - 1, it) + (IF <<a, b>> \in Edges(it.tours[k]) THEN it.w[k] ELSE 0)
Prev == IF l = 1 THEN R.pher0 ELSE R.it[l - 1].pher
OwnEdges == UNION {Edges(Cur.tours[k]) : k \in Ants}
\* trailing depot visits are padding (run() pads the stored CVRP sequences with zeros to a common length)
RECURSIVE Strip(_)
Strip(seq) == IF seq # <<>> /\ seq[Len(seq)] = 0 /\ R.kind = "cvrp" THEN Strip(SubSeq(seq, 1, Len(seq) - 1)) ELSE seq
MaxOf(S) == CHOOSE x \in S : \A y \in S : y <= x
SeenRew == {R.it[t].rew[k] : t \in 1..l, k \in Ants}
SeenTours == {Strip(R.it[t].tours[k]) : t \in 1..l, k \in Ants}

(* ---- C12: the pheromone matrix of the instance ---- *)
M_Init == (l = 0 /\ \E a, b \in Nodes : Abs(R.pher0[a][b] - 50000) > 2) => Fail("initial-pheromone")
M_Weights == (InIter /\ \E k \in Ants : Abs(Cur.wL[k] - Cur.w[k]) > WTol) => Fail("deposit-weight")
\* the library's own weights: within [0, Q], and an ant that is worse (beyond float noise) never deposits more.  Ants whose
\* rewards differ by rounding only (the same cycle walked from another start node) are NOT compared: (r - m) / (M - m) is
\* discontinuous at a tie, so one of them may deposit Q and the other nothing.
M_WeightShape ==
   (InIter /\ ~(\A k, j \in Ants : /\ Cur.wL[k] >= 0 /\ Cur.wL[k] <= R.q8 + WTol
                                   /\ (Cur.rewL[k] < Cur.rewL[j] - RTol(Cur.rewL[j]) => Cur.wL[k] <= Cur.wL[j] + WTol)))
     => Fail("deposit-weight-monotone-in-reward")
M_PherOwn ==
   (InIter /\ \E a, b \in Nodes : /\ <<a - 1, b - 1>> \notin OwnEdges
                                  /\ Abs(Cur.pher[a][b] - Decay(Prev[a][b])) > PTol(Prev[a][b])) => Fail("pheromone-only-from-own-ants")
M_Pher ==
   (InIter /\ \E a, b \in Nodes : /\ <<a - 1, b - 1>> \in OwnEdges
                                  /\ Abs(Cur.pher[a][b] - (Decay(Prev[a][b]) + SumW(a - 1, b - 1, R.nants, Cur))) > PTol(Cur.pher[a][b]) + R.nants)
     => Fail("pheromone-recurrence")
(* ---- C15: results ---- *)
M_Rescore == (InIter /\ \E k \in Ants : Abs(Cur.rewL[k] - Cur.rew[k]) > RTol(Cur.rew[k])) => Fail("ant-reward-is-own-tour-length")
M_BestIsMax == (InIter /\ Abs(Cur.bestR - MaxOf(SeenRew)) > RTol(Cur.bestR)) => Fail("best-is-max-of-own-history")
M_Monotone == (InIter /\ l > 1 /\ Cur.bestR < R.it[l - 1].bestR) => Fail("best-so-far-monotone")
M_StoredCost == (InIter /\ (~Cur.bestOK \/ Abs(Cur.bestS - Cur.bestR) > RTol(Cur.bestR))) => Fail("stored-tour-has-stored-cost")
M_Own == (InIter /\ Strip(Cur.bestA) \notin SeenTours) => Fail("stored-tour-from-own-ant")
M_Final == (l = T + 1 /\ ~R.crashed /\ ~(/\ R.out.rew = R.it[T].bestR
                           /\ Strip(R.out.act) = Strip(R.it[T].bestA)
                           /\ Abs(R.out.score - R.out.rew) <= RTol(R.out.rew)
                           /\ R.out.ok /\ R.out.done)) => Fail("final-is-best")
End == (l = T + 1) => PrintT(<<"END", tid>>)
=============================================================================
