------------------------------ MODULE BatchEq ------------------------------
(* C04 -- batch independence, decided on executions of the REAL environment.
   One record = one (instance, mask-confined action sequence) that was run
     solo     as a batch of size one, without padding, and
     rows[k]  as a row of several different batches (different sizes, positions,
              batch-mates: copies of itself, unrelated instances, slower mates
              that force post-finish padding steps).
   The specification walks the episode step by step (variable l) and requires
   every batched row to show exactly the solo masks and done flags, then, while
   being padded, to stay finished with a non-empty mask, and to end with exactly
   the solo reward.  Failing clauses print <<"FAIL", tid, name, l>>.         *)
EXTENDS Naturals, Sequences, TLC, Json, IOUtils

Recs == ndJsonDeserialize(IOEnv.TRACE_FILE)

VARIABLES tid, l
vars == <<tid, l>>

R == Recs[tid]
T == Len(R.a)
NRows == Len(R.rows)

Init == tid \in 1..Len(Recs) /\ l = 0
Next == l < T /\ l' = l + 1 /\ UNCHANGED tid
Spec == Init /\ [][Next]_vars

Fail(name) == PrintT(<<"FAIL", tid, name, l>>)

\* same mask and same done flag as the solo run after l steps
M_Mask == (\E k \in 1..NRows : R.rows[k].mask[l + 1] # R.solo.mask[l + 1]) => Fail("mask")
M_Done == (\E k \in 1..NRows : R.rows[k].done[l + 1] # R.solo.done[l + 1]) => Fail("done")

\* padding: the row stays finished, is always offered an action (unless the solo run
\* itself shows that this environment offers none after finishing: fixed-length episodes)
M_PadDone == (l = T /\ \E k \in 1..NRows : \E j \in (T + 2)..Len(R.rows[k].done) : ~R.rows[k].done[j])
                => Fail("pad-done")
M_PadMask == (l = T /\ R.pad_needed /\ \E k \in 1..NRows : R.rows[k].stuck) => Fail("pad-stuck")

\* same reward
M_Reward == (l = T /\ \E k \in 1..NRows : R.rows[k].reward # R.solo.reward) => Fail("reward")

End == (l = T) => PrintT(<<"END", tid>>)
=============================================================================
