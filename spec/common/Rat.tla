-------------------------------- MODULE Rat --------------------------------
(* Exact rationals as normalised pairs <<num, den>> with den > 0.
   TLC integers are 32 bit: callers keep numerators/denominators small
   (families are bounded accordingly).                                      *)
EXTENDS Integers, Sequences

RAbs(a) == IF a < 0 THEN -a ELSE a
RECURSIVE GCD(_, _)
GCD(a, b) == IF b = 0 THEN a ELSE GCD(b, a % b)
RNorm(r) == LET n == r[1] d == r[2]
                s == IF d < 0 THEN -1 ELSE 1
                g == GCD(RAbs(n), RAbs(d))
            IN IF n = 0 THEN <<0, 1>> ELSE <<(s * n) \div g, (s * d) \div g>>
RInt(k)      == <<k, 1>>
RAdd(a, b)   == RNorm(<<a[1] * b[2] + b[1] * a[2], a[2] * b[2]>>)
RSub(a, b)   == RNorm(<<a[1] * b[2] - b[1] * a[2], a[2] * b[2]>>)
RMul(a, b)   == RNorm(<<a[1] * b[1], a[2] * b[2]>>)
RDiv(a, b)   == RNorm(<<a[1] * b[2], a[2] * b[1]>>)
REq(a, b)    == a[1] * b[2] = b[1] * a[2]
RLeq(a, b)   == a[1] * b[2] <= b[1] * a[2]
RECURSIVE RSumSeq(_)
RSumSeq(s) == IF s = <<>> THEN <<0, 1>> ELSE RAdd(Head(s), RSumSeq(Tail(s)))
\* |x * S - r| <= tol  for a logged integer x in units of 1/S and an exact rational r
RNear(x, S, r, tol) == RAbs(x * r[2] - S * r[1]) <= tol * r[2]
=============================================================================
