---------------------------- MODULE RolloutTrace ----------------------------
(* C02 on the REAL batched decoding loop (ConstructivePolicy.forward) driven by a uniform-random
   stub decoder on instances drawn from the real generators.  One record per decoded batch; the
   stub decoder sees the state at every loop iteration and logs, per iteration t = 1..steps:
     minmask[t]   the smallest number of feasible actions over ALL rows of the batch (finished rows included)
     ndone[t]     number of finished rows (the loop runs while this is < B)
     undone[t]    number of rows whose done flag went from TRUE back to FALSE since the previous iteration
   bound = the step bound the property names for this environment and these instances (max over rows).
   The specification walks the iterations (variable l).                                          *)
EXTENDS Naturals, Sequences, TLC, Json, IOUtils
Recs == ndJsonDeserialize(IOEnv.TRACE_FILE)
VARIABLES tid, l
vars == <<tid, l>>
R == Recs[tid]
Init == tid \in 1..Len(Recs) /\ l = 0
Next == l < R.steps /\ l' = l + 1 /\ UNCHANGED tid
Spec == Init /\ [][Next]_vars
Fail(c) == PrintT(<<"FAIL", tid, c, l>>)
\* while some row is unfinished every row is offered an action (no all-masked row reaches the softmax)
M_Mask  == (l > 0 /\ R.ndone[l] < R.B /\ R.minmask[l] = 0) => Fail("all-masked-row")
\* finished stays finished
M_Mono  == (l > 0 /\ R.undone[l] > 0) => Fail("done-not-monotone")
\* the loop ends within the problem's step bound (it never gets near the safety cap)
M_Bound == (l = R.steps /\ (R.steps > R.bound \/ ~R.finished)) => Fail("step-bound")
End == (l = R.steps) => PrintT(<<"END", tid>>)
=============================================================================
