------------------------------- MODULE Util -------------------------------
(* Shared arithmetic / sequence helpers for all rl4co specification modules.
   Conventions used by every module:
     - node 0 is the depot (when there is one); JSON arrays become 1-based
       TLA+ sequences, so a matrix indexed by nodes is read with Dist(D,i,j)
       = D[i+1][j+1] and per-customer vectors (demand, prize ...) are indexed
       directly by the customer number 1..N.
     - all quantities are integers < 2^30 (TLC ints are 32 bit).            *)
EXTENDS Naturals, Integers, Sequences, FiniteSets

Max(a, b) == IF a >= b THEN a ELSE b
Min(a, b) == IF a <= b THEN a ELSE b
Abs(a)    == IF a >= 0 THEN a ELSE -a
Near(a, b, eps) == Abs(a - b) <= eps

ToSetU(seq) == {seq[i] : i \in DOMAIN seq}
Last(seq)  == seq[Len(seq)]
Front(seq) == SubSeq(seq, 1, Len(seq) - 1)

RECURSIVE SumSeq(_)
SumSeq(s) == IF s = <<>> THEN 0 ELSE Head(s) + SumSeq(Tail(s))

RECURSIVE MaxSeq(_)
MaxSeq(s) == IF Len(s) = 1 THEN s[1] ELSE Max(Head(s), MaxSeq(Tail(s)))

RECURSIVE SumSet(_, _)
SumSet(S, f) == IF S = {} THEN 0
                ELSE LET x == CHOOSE y \in S : TRUE IN f[x] + SumSet(S \ {x}, f)

Count(seq, x) == Cardinality({i \in DOMAIN seq : seq[i] = x})
NoDup(seq)    == \A i, j \in DOMAIN seq : i # j => seq[i] # seq[j]

Dist(D, i, j) == D[i + 1][j + 1]

\* length of the open path visiting the nodes of `path` in order
RECURSIVE PathLen(_, _)
PathLen(D, path) == IF Len(path) <= 1 THEN 0
                    ELSE Dist(D, path[1], path[2]) + PathLen(D, Tail(path))

\* closed tour through `path` (returns from the last to the first node)
CycleLen(D, path) == IF path = <<>> THEN 0
                     ELSE PathLen(D, path) + Dist(D, Last(path), path[1])

\* maximal 0-free segments of a node sequence (the vehicle routes)
RECURSIVE Routes(_)
Routes(seq) ==
  IF seq = <<>> THEN <<>>
  ELSE IF Head(seq) = 0 THEN Routes(Tail(seq))
  ELSE LET k == IF \E i \in DOMAIN seq : seq[i] = 0
                THEN (CHOOSE i \in DOMAIN seq : seq[i] = 0 /\ \A j \in 1..(i-1) : seq[j] # 0) - 1
                ELSE Len(seq)
       IN <<SubSeq(seq, 1, k)>> \o Routes(SubSeq(seq, k + 1, Len(seq)))

\* the last maximal 0-free suffix (the route currently being driven)
RECURSIVE CurRoute(_)
CurRoute(seq) == IF seq = <<>> \/ Last(seq) = 0 THEN <<>>
                 ELSE Append(CurRoute(Front(seq)), Last(seq))

Prev(seq) == IF seq = <<>> THEN 0 ELSE Last(seq)   \* node the vehicle is at (starts at depot)
=============================================================================
