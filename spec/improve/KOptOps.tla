------------------------------ MODULE KOptOps ------------------------------
(* C09 -- the moves of rl4co.envs.routing.tsp.env.TSPkoptEnv, per batch row.
   k_max = 2  ("two_opt_mode", DACT):  action = <<first, second>>, admitted by get_mask
              iff first # second; _local_operator reverses the stretch first..second.
   k_max > 2  (NeuOpt):  action = idx \o left \o right (3K numbers), built node by node
              by _random_action / NeuOptPolicy.forward under their sequential masks
              (the environment has no get_mask for this mode); _local_operator sets
              rec[left[j]] = right[j] and repairs the orientation by one walk.
   Everything below transcribes that code; nothing here states the property.       *)
EXTENDS Tour

(* ------------------------------ 2-opt mode ------------------------------ *)
TwoOptMask(n) == {<<f, s>> : f \in Nodes(n), s \in Nodes(n)} \ {<<v, v>> : v \in Nodes(n)}

\* reverse loop:  for i in range(num_loc): cur_next = solution[cur];
\*     rec[cur_next] = cur if cur != second else rec[cur_next];  cur = cur_next if cur != second else cur
RECURSIVE RevLoop(_, _, _, _, _)
RevLoop(sol, s, r, cur, i) ==
  IF i = 0 THEN r
  ELSE LET cn == Nx(sol, cur)
       IN RevLoop(sol, s, Put(r, cn, IF cur # s THEN cur ELSE Nx(r, cn)), IF cur # s THEN cn ELSE cur, i - 1)

TwoOpt(sol, f, s) ==
  LET pf0 == Pred(sol)[f + 1]                       \* argsort.gather(first)
      pf  == IF pf0 # s THEN pf0 ELSE f
      r1  == Put(sol, pf, s)                        \* rec.scatter_(pre_first, second)
      ps0 == Nx(sol, s)
      ps  == IF ps0 # f THEN ps0 ELSE s
      r2  == Put(r1, f, ps)                         \* rec.scatter_(first, post_second)
  IN RevLoop(sol, s, r2, f, Len(sol))

(* ------------------------- k-opt: building a move ----------------------- *)
\* per-row state of the loop `for i in range(k_max)` of _random_action / NeuOptPolicy.forward
KInit(K) == [idx |-> [j \in 1..K |-> 0], left |-> [j \in 1..(K + 1) |-> 0], right |-> [j \in 1..K |-> 0],
             nla |-> 0 - 1, mask |-> {}, stopped |-> TRUE, tag |-> <<>>]

\* nodes the i-th draw (i = 0..K-1) can return: unmasked nodes (softmax over all -1e30 logits is uniform,
\* hence the middle case); rows that have already closed their move repeat the first node
Cand(n, st, i) == IF i > 0 /\ st.stopped THEN {st.idx[1]}
                  ELSE IF Nodes(n) \ st.mask = {} THEN Nodes(n) ELSE Nodes(n) \ st.mask

\* python index i-1 (wraps to the last column for i = 0)
Wrap(i, width) == IF i = 0 THEN width ELSE i

Sel(rec, vt, K, st, i, a) ==
  LET n   == Len(rec)
      nn  == Nx(rec, a)                                             \* next_of_new_action
      tag == IF i = 0 THEN [v \in 1..n |-> (vt[v] - vt[a + 1] + n) % n] ELSE st.tag   \* visited_time_tag
      idx1 == [st.idx EXCEPT ![i + 1] = a]
      l1  == IF st.stopped THEN [st.left EXCEPT ![i + 1] = a] ELSE st.left
      r1  == IF ~st.stopped THEN [st.right EXCEPT ![Wrap(i, K)] = a] ELSE st.right
      l2  == [l1 EXCEPT ![i + 2] = nn]
      stp == IF i > 0 THEN st.stopped \/ a = st.nla ELSE a = st.nla
      l3  == IF stp THEN [l2 EXCEPT ![i + 1] = l2[Wrap(i, K + 1)]] ELSE l2
      r2  == IF stp THEN [r1 EXCEPT ![i + 1] = r1[Wrap(i, K)]] ELSE r1
      m1  == {v \in Nodes(n) : tag[v + 1] <= tag[a + 1] \/ (i = 0 /\ tag[v + 1] > n - 2)}
      m2  == IF stp THEN m1 \ {a} ELSE m1
      m3  == IF ~stp /\ nn = idx1[1] THEN m2 \ {idx1[1]} ELSE m2
  IN [idx |-> idx1, left |-> l3, right |-> r2, nla |-> IF stp THEN 0 - 1 ELSE nn,
      mask |-> m3, stopped |-> stp, tag |-> tag]

KFinal(K, st) ==
  LET r == IF ~st.stopped THEN [st.right EXCEPT ![K] = st.left[K + 1]] ELSE st.right
  IN st.idx \o SubSeq(st.left, 1, K) \o r

RECURSIVE KStates(_, _, _, _, _)
KStates(rec, vt, K, S, i) ==
  IF i = K THEN S
  ELSE KStates(rec, vt, K, UNION {{Sel(rec, vt, K, st, i, a) : a \in Cand(Len(rec), st, i)} : st \in S}, i + 1)

\* every action the builder can emit for the tour rec (visited_time is the environment's own)
KActions(rec, K) == {KFinal(K, st) : st \in KStates(rec, VisitedTime(rec), K, {KInit(K)}, 0)}

\* membership without enumeration: re-run the builder along the logged draws act[1..K]
RECURSIVE KFollow(_, _, _, _, _, _)
KFollow(rec, vt, K, st, i, act) ==
  IF i = K THEN KFinal(K, st) = act
  ELSE /\ act[i + 1] \in Cand(Len(rec), st, i)
       /\ KFollow(rec, vt, K, Sel(rec, vt, K, st, i, act[i + 1]), i + 1, act)
KAdmitted(rec, K, act) ==
  /\ Len(act) = 3 * K /\ \A j \in DOMAIN act : act[j] \in Nodes(Len(rec))
  /\ KFollow(rec, VisitedTime(rec), K, KInit(K), 0, act)

(* ------------------------- k-opt: applying a move ----------------------- *)
KIdx(K, act)   == SubSeq(act, 1, K)
KLeft(K, act)  == SubSeq(act, K + 1, 2 * K)
KRight(K, act) == SubSeq(act, 2 * K + 1, 3 * K)

\* for i in range(num_loc - 2): next_cur = rec_next[cur]; pre = argsort[next_cur];
\*    cond = (cur != pre) & ~(next_cur in right_nodes); rec_next[next_cur] = pre if cond else rec_next[next_cur]
RECURSIVE KWalk(_, _, _, _, _)
KWalk(pred, rightNodes, r, cur, i) ==
  IF i = 0 THEN r
  ELSE LET nc   == Nx(r, cur)
           pn   == pred[nc + 1]
           cond == cur # pn /\ nc \notin rightNodes
       IN KWalk(pred, rightNodes, Put(r, nc, IF cond THEN pn ELSE Nx(r, nc)), nc, i - 1)

KOpt(rec, K, act) ==
  LET rightNodes == {Nx(rec, KIdx(K, act)[j]) : j \in 1..K}        \* rec.gather(selected_index)
      r0 == Scatter(rec, KLeft(K, act), KRight(K, act), 1)          \* rec_next.scatter_(1, left, right)
  IN KWalk(Pred(rec), rightNodes, r0, KLeft(K, act)[1], Len(rec) - 2)
KClash(K, act) == ScatterClash(KLeft(K, act), KRight(K, act))

(* ------------------------------ both modes ------------------------------ *)
Moves(rec, K) == IF K = 2 THEN TwoOptMask(Len(rec)) ELSE KActions(rec, K)
Admitted(rec, K, act) == IF K = 2 THEN Len(act) = 2 /\ <<act[1], act[2]>> \in TwoOptMask(Len(rec))
                         ELSE KAdmitted(rec, K, act)
Apply(rec, K, act) == IF K = 2 THEN TwoOpt(rec, act[1], act[2]) ELSE KOpt(rec, K, act)
=============================================================================
