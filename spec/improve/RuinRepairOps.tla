--------------------------- MODULE RuinRepairOps ---------------------------
(* C09 -- the moves of rl4co.envs.routing.pdp.env.PDPRuinRepairEnv, per batch row.
   n = 2h + 1 nodes: depot 0, pickups 1..h, delivery of pickup p is p + h.
   action = <<p, first, second>>: pair number p in 0..h-1 (pickup p+1 and its delivery are
   taken out of the tour), the pickup is re-inserted after node `first`, the delivery after
   node `second`.  get_mask(p+1, td) admits (first, second) iff neither is a removed node
   and first is visited no later than second (depot first).
   Everything below transcribes that code; nothing here states the property.          *)
EXTENDS Tour

Half(rec) == Len(rec) \div 2

\* get_mask: visited_time % gs (the depot, visited "last" by the loop, becomes 0 = first)
RRMask(rec, p) ==
  LET n  == Len(rec)
      vt == [v \in 1..n |-> VisitedTime(rec)[v] % n]
      out == {p + 1, p + 1 + Half(rec)}
  IN {<<f, s>> \in Nodes(n) \X Nodes(n) : ~(vt[f + 1] > vt[s + 1]) /\ f \notin out /\ s \notin out}

RRMoves(rec) == UNION {{<<p, fs[1], fs[2]>> : fs \in RRMask(rec, p)} : p \in 0..(Half(rec) - 1)}

RRAdmitted(rec, act) == /\ Len(act) = 3 /\ act[1] \in 0..(Half(rec) - 1)
                        /\ <<act[2], act[3]>> \in RRMask(rec, act[1])

\* _local_operator
RRApply(sol, p, f, s) ==
  LET pi == p + 1                                   \* pair_index
      di == pi + Half(sol)                          \* pair_index + gs // 2
      r1 == Put(sol, Pred(sol)[pi + 1], Nx(sol, pi))        \* rec[pre_pairfirst] = post_pairfirst
      r2 == Put(r1, pi, pi)                                 \* rec[pair_index] = pair_index
      r3 == Put(r2, Pred(r2)[di + 1], Nx(r2, di))           \* rec[pre_pairsecond] = post_pairsecond
      r4 == Put(r3, s, di)                                  \* rec[second] = delivery
      r5 == Put(r4, di, Nx(r3, s))                          \* rec[delivery] = post_second
      r6 == Put(r5, f, pi)                                  \* rec[first] = pickup
  IN Put(r6, pi, Nx(r5, f))                                 \* rec[pickup] = post_first
RRApplyAct(rec, act) == RRApply(rec, act[1], act[2], act[3])

\* all precedence-feasible tours over n = 2h+1 nodes
AllPDPTours(n) == {r \in AllTours(n) : PrecedenceOK(r, n \div 2)}
=============================================================================
