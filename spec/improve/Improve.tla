------------------------------ MODULE Improve ------------------------------
(* C09 -- improvement environments keep tours valid and the best-so-far bookkeeping exact.
   State machine of ONE batch row of TSPkoptEnv (kind "kopt": K = 2 two-opt mode, K > 2 k-opt)
   or PDPRuinRepairEnv (kind "pdp"), driven the way rl4co's n-step PPO drives it:
       td = env.reset(batch);  repeat { td["action"] = move; env.step(td) }
       and optionally  env.step_to_solution(td, td["rec_best"])   (action Jump).
   The variables are the entries of the TensorDict the property names
   (rec_current, rec_best, cost_current, cost_bsf, reward); rec0, hist, pbsf, seenMin, rsum
   are history variables from which the invariants recompute the stated quantities.
   Family: JSON list of [id, kind, n, K, D, depth, jump] (integer distance matrix D).
   Initial states: every instance x every (precedence-feasible) tour.
   Next: every move admitted by the environment's move mask (KOptOps!Moves / RuinRepairOps!RRMoves).
   Invariants never halt TLC: a failing clause prints <<"MODELFAIL", clause, id, rec0, hist>>;
   Emit prints every state for the replay into the real environment.                     *)
EXTENDS KOptOps, RuinRepairOps, Json, IOUtils

Family == JsonDeserialize(IOEnv.FAMILY_FILE)

VARIABLES inst, rec0, hist, cur, best, ccur, cbsf, rew, pbsf, seenMin, rsum
vars == <<inst, rec0, hist, cur, best, ccur, cbsf, rew, pbsf, seenMin, rsum>>

IsPDP(i) == i.kind = "pdp"
MoveSet(i, rec)      == IF IsPDP(i) THEN RRMoves(rec) ELSE Moves(rec, i.K)
MoveApply(i, rec, a) == IF IsPDP(i) THEN RRApplyAct(rec, a) ELSE Apply(rec, i.K, a)
Tours(i)             == IF IsPDP(i) THEN AllPDPTours(i.n) ELSE AllTours(i.n)
\* C09, first sentence: a single cycle through all nodes, each pickup before its delivery
Valid(i, rec) == IsSingleCycle(rec) /\ (IsPDP(i) => PrecedenceOK(rec, i.n \div 2))
Jump == <<0 - 1>>

Init == /\ inst \in ToSetU(Family)
        /\ rec0 \in Tours(inst)
        /\ hist = <<>> /\ cur = rec0 /\ best = rec0
        /\ ccur = TourLen(inst.D, rec0) /\ cbsf = ccur /\ pbsf = ccur /\ seenMin = ccur
        /\ rew = 0 /\ rsum = 0

\* ImprovementEnv._step with the tour `nextRec` the move (or step_to_solution) produced
Do(a, nextRec) ==
  LET b == Book(inst.D, best, cbsf, nextRec)
  IN /\ cur' = b.cur /\ best' = b.best /\ ccur' = b.ccur /\ cbsf' = b.cbsf /\ rew' = b.rew
     /\ pbsf' = cbsf
     /\ seenMin' = Min(seenMin, TourLen(inst.D, nextRec))
     /\ rsum' = rsum + b.rew
     /\ hist' = Append(hist, a)
     /\ UNCHANGED <<inst, rec0>>

Next == /\ Len(hist) < inst.depth
        /\ Valid(inst, cur)                      \* the property is about moves applied to valid tours
        /\ \/ \E a \in MoveSet(inst, cur) : Do(a, MoveApply(inst, cur, a))
           \/ inst.jump /\ Do(Jump, best)
Spec == Init /\ [][Next]_vars

MFail(c) == PrintT(<<"MODELFAIL", c, inst.id, rec0, hist>>)
C_Tour     == ~Valid(inst, cur) => MFail("tour-valid")
C_BestTour == ~Valid(inst, best) => MFail("best-tour-valid")
C_Cost     == ccur # TourLen(inst.D, cur) => MFail("cost-current")
C_BsfLen   == cbsf # TourLen(inst.D, best) => MFail("bsf-length-of-best")
C_BsfMin   == cbsf # seenMin => MFail("bsf-min-seen")
C_Mono     == cbsf > pbsf => MFail("bsf-monotone")
C_Reward   == rew # pbsf - cbsf => MFail("reward-decrease")
C_Sum      == rsum # TourLen(inst.D, rec0) - cbsf => MFail("reward-sum")
\* well-definedness of scatter_ with duplicate indices in the k-opt operator
C_Clash    == (~IsPDP(inst) /\ inst.K > 2 /\ hist # <<>> /\ Last(hist) # Jump /\ KClash(inst.K, Last(hist)))
              => MFail("scatter-clash")
Emit == PrintT(<<"S", inst.id, rec0, hist, cur, best, ccur, cbsf, rew>>)
=============================================================================
