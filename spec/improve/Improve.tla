------------------------------ MODULE Improve ------------------------------
(* C09 -- improvement environments keep tours valid and the best-so-far bookkeeping exact.
   State machine of ONE batch row of TSPkoptEnv (kind "kopt": K = 2 two-opt mode, K > 2 k-opt)
   or PDPRuinRepairEnv (kind "pdp"), driven the way rl4co's n-step PPO drives it:
       td = env.reset(batch);  repeat { td["action"] = move; env.step(td) }
       and optionally  env.step_to_solution(td, td["rec_best"])   (action Jump).
   The variables are the entries of the TensorDict the property names
   (rec_current, rec_best, cost_current, cost_bsf, reward); rec0, hist, pbsf, seenMin, rsum
   are history variables from which the invariants recompute the stated quantities.
   Family: JSON list of [id, kind, n, K, D, depth, jump, first, ext] (integer distance matrix D; ext = sequence of
   EXTERNAL tours the state may be moved to with env.step_to_solution(td, tour): action JumpTo, history entry <<-2>> \o tour).
   Initial states: every instance x every (precedence-feasible) tour.
   Next: every move admitted by the environment's move mask (KOptOps!Moves / RuinRepairOps!RRMoves).
   Invariants never halt TLC: a failing clause prints <<"MODELFAIL", clause, id, rec0, hist>>;
   Emit prints every state for the replay into the real environment.                     *)
EXTENDS KOptOps, RuinRepairOps, Json, IOUtils

Family == JsonDeserialize(IOEnv.FAMILY_FILE)

VARIABLES inst, rec0, hist, cur, best, ccur, cbsf, rew, prev, pbsf, seenMin, rsum
vars == <<inst, rec0, hist, cur, best, ccur, cbsf, rew, prev, pbsf, seenMin, rsum>>

IsPDP(i) == i.kind = "pdp"
MoveSet(i, rec)      == IF IsPDP(i) THEN RRMoves(rec) ELSE Moves(rec, i.K)
MoveApply(i, rec, a) == IF IsPDP(i) THEN RRApplyAct(rec, a) ELSE Apply(rec, i.K, a)
Tours(i)             == IF IsPDP(i) THEN AllPDPTours(i.n) ELSE AllTours(i.n)
\* C09, first sentence: a single cycle through all nodes, each pickup before its delivery
Valid(i, rec) == IsSingleCycle(rec) /\ (IsPDP(i) => PrecedenceOK(rec, i.n \div 2))
Jump == <<0 - 1>>
JumpTo(t) == <<0 - 2>> \o t
IsJumpAct(a) == a[1] < 0

Init == /\ inst \in ToSetU(Family)
        /\ rec0 \in Tours(inst)
        /\ (inst.first = 0 \/ rec0[1] = inst.first)      \* optional restriction of the initial tours (scope control)
        /\ hist = <<>> /\ cur = rec0 /\ best = rec0 /\ prev = rec0
        /\ ccur = TourLen(inst.D, rec0) /\ cbsf = ccur /\ pbsf = ccur /\ seenMin = ccur
        /\ rew = 0 /\ rsum = 0

\* ImprovementEnv._step with the tour `nextRec` the move (or step_to_solution) produced
Do(a, nextRec) ==
  LET b == Book(inst.D, best, cbsf, nextRec)
  IN /\ cur' = b.cur /\ best' = b.best /\ ccur' = b.ccur /\ cbsf' = b.cbsf /\ rew' = b.rew
     /\ pbsf' = cbsf /\ prev' = cur
     /\ seenMin' = Min(seenMin, TourLen(inst.D, nextRec))
     /\ rsum' = rsum + b.rew
     /\ hist' = Append(hist, a)
     /\ UNCHANGED <<inst, rec0>>

Next == /\ Len(hist) < inst.depth
        /\ Valid(inst, cur)                      \* the property is about moves applied to valid tours
        /\ \/ \E a \in MoveSet(inst, cur) : Do(a, MoveApply(inst, cur, a))
           \/ inst.jump /\ Do(Jump, best)
           \* an external solution (any valid tour, better or worse than everything seen) is book-kept like a move
           \/ \E k \in 1..Len(inst.ext) : Valid(inst, inst.ext[k]) /\ Do(JumpTo(inst.ext[k]), inst.ext[k])
Spec == Init /\ [][Next]_vars

MFail(c) == PrintT(<<"MODELFAIL", c, inst.id, rec0, hist>>)
C_Tour     == ~Valid(inst, cur) => MFail("tour-valid")
C_BestTour == ~Valid(inst, best) => MFail("best-tour-valid")
C_Cost     == ccur # TourLen(inst.D, cur) => MFail("cost-current")
C_BsfLen   == cbsf # TourLen(inst.D, best) => MFail("bsf-length-of-best")
C_BsfMin   == cbsf # seenMin => MFail("bsf-min-seen")
C_Mono     == cbsf > pbsf => MFail("bsf-monotone")
C_Reward   == rew # pbsf - cbsf => MFail("reward-decrease")
C_Sum      == rsum # TourLen(inst.D, rec0) - cbsf => MFail("reward-sum")
\* well-definedness of scatter_ with duplicate indices in the k-opt operator
C_Clash    == (~IsPDP(inst) /\ inst.K > 2 /\ hist # <<>> /\ ~IsJumpAct(Last(hist)) /\ KClash(inst.K, Last(hist)))
              => MFail("scatter-clash")

(* what the moves mean (sanity of the transcribed operators against the textbook definitions; MODELFAIL
   "move-meaning" is reported as drift of the model, it is not a clause of C09) *)
Reverse(s) == [i \in 1..Len(s) |-> s[Len(s) + 1 - i]]
\* 2-opt: the stretch first..second is traversed backwards, the rest of the cycle as before
TwoOptMeaning(pre, f, s, post) ==
  LET o == Walk(pre, f, Len(pre))
      k == Pos(o, s)
  IN post = RecOf(Reverse(SubSeq(o, 1, k)) \o SubSeq(o, k + 1, Len(o)))
\* k-opt: every edge left[j]-right[j] is in the new tour and only edges (a, next a) of selected nodes a may disappear
UEdges(rec) == {{i - 1, rec[i]} : i \in 1..Len(rec)}
KMeaning(pre, K, act, post) ==
  /\ {{KLeft(K, act)[j], KRight(K, act)[j]} : j \in 1..K} \subseteq UEdges(post)
  /\ UEdges(pre) \ UEdges(post) \subseteq {{KIdx(K, act)[j], Nx(pre, KIdx(K, act)[j])} : j \in 1..K}
\* ruin-repair: take the pair out of the visiting order, put the delivery behind `second`, then the pickup behind `first`
Without(seq, S) == SelectSeq(seq, LAMBDA x : x \notin S)
InsertAfter(seq, x, y) == LET k == Pos(seq, x) IN SubSeq(seq, 1, k) \o <<y>> \o SubSeq(seq, k + 1, Len(seq))
RRMeaning(pre, p, f, s, post) ==
  LET h == Len(pre) \div 2
      o == Without(Order(pre), {p + 1, p + 1 + h})
  IN post = RecOf(InsertAfter(InsertAfter(o, s, p + 1 + h), f, p + 1))
Meaning(a) == IF IsPDP(inst) THEN RRMeaning(prev, a[1], a[2], a[3], cur)
              ELSE IF inst.K = 2 THEN TwoOptMeaning(prev, a[1], a[2], cur)
              ELSE KMeaning(prev, inst.K, a, cur)
C_Meaning == (hist # <<>> /\ ~IsJumpAct(Last(hist)) /\ ~Meaning(Last(hist))) => MFail("move-meaning")

Emit == PrintT(<<"S", inst.id, rec0, hist, cur, best, ccur, cbsf, rew>>)
=============================================================================
