------------------------------ MODULE TourClass ------------------------------
(* C06 for the improvement environments: classification of candidate successor arrays by the
   problem definition of Tour.tla PART 1 (the same predicates C09 uses).  One ndjson record per
   case: [kind "kopt" | "pdp", n, rec].  Prints <<"CLS", tid, feasible>>; the harness compares
   with the verdict of the real check_solution_validity(td) reading td["rec_best"].           *)
EXTENDS Tour, Json, IOUtils

Cases == ndJsonDeserialize(IOEnv.TRACE_FILE)
VARIABLE tid
Init == tid \in 1..Len(Cases)
Next == UNCHANGED tid
Spec == Init /\ [][Next]_tid
C == Cases[tid]
Feasible == /\ Len(C.rec) = C.n
            /\ IsSingleCycle(C.rec)
            /\ (C.kind = "pdp" => PrecedenceOK(C.rec, C.n \div 2))
Classify == PrintT(<<"CLS", tid, Feasible>>)
=============================================================================
