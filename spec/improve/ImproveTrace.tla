---------------------------- MODULE ImproveTrace ----------------------------
(* C09 on executions RECORDED FROM THE REAL environments (TSPkoptEnv, PDPRuinRepairEnv) driven by
   their own _random_action samplers or by the bundled policies (DACT, NeuOpt, N2S).
   One ndjson record per batch row:
     kind "kopt" | "pdp", n, K, D (integer distance matrix, unit 1/S), tol (units; 0 = exact instance),
     init = [rec, best, cost, bsf]                     the TensorDict after env.reset
     ev[k] = [a, rec, best, cost, bsf, rew]            the move and the TensorDict after the k-th env.step
                                                       (a = <<-1>>: step_to_solution(td, rec_best); <<-2>> \o tour: step_to_solution(td, tour))
   The spec walks the run step by step (l) keeping the history variables
     minSeen = min length of all tours seen, rsum = sum of rewards, nimp = number of non-zero rewards.
   The M_ monitors state the clauses of C09 using only Tour.tla PART 1 and the logged values; they never
   halt: <<"FAIL", tid, clause, l>>.  D_ monitors compare with the transcribed move semantics / mask.  *)
EXTENDS KOptOps, RuinRepairOps, Json, IOUtils

Traces == ndJsonDeserialize(IOEnv.TRACE_FILE)
VARIABLES tid, l, minSeen, rsum, nimp
vars == <<tid, l, minSeen, rsum, nimp>>
Tr == Traces[tid]
St(k) == IF k = 0 THEN Tr.init ELSE Tr.ev[k]
Cur == St(l)
Bef == St(l - 1)
Big == 1000000000
Shaped(rec) == Len(rec) = Tr.n /\ WellFormed(rec)
SafeLen(rec) == IF Shaped(rec) THEN TourLen(Tr.D, rec) ELSE Big
Cycle(rec) == Shaped(rec) /\ IsSingleCycle(rec)
ValidTour(rec) == Cycle(rec) /\ (Tr.kind = "pdp" => PrecedenceOK(rec, Tr.n \div 2))

Init == /\ tid \in 1..Len(Traces) /\ l = 0
        /\ minSeen = SafeLen(Traces[tid].init.rec) /\ rsum = 0 /\ nimp = 0
Next == /\ l < Len(Tr.ev) /\ l' = l + 1 /\ UNCHANGED tid
        /\ minSeen' = Min(minSeen, SafeLen(Tr.ev[l + 1].rec))
        /\ rsum' = rsum + Tr.ev[l + 1].rew
        /\ nimp' = nimp + (IF Tr.ev[l + 1].rew # 0 THEN 1 ELSE 0)
Spec == Init /\ [][Next]_vars

Fail(c) == PrintT(<<"FAIL", tid, c, l>>)
\* -------- tours stay valid --------
M_Cycle  == ~Cycle(Cur.rec) => Fail("tour-single-cycle")
M_Prec   == (Tr.kind = "pdp" /\ Cycle(Cur.rec) /\ ~PrecedenceOK(Cur.rec, Tr.n \div 2)) => Fail("pickup-before-delivery")
M_Best   == ~ValidTour(Cur.best) => Fail("best-tour-valid")
\* -------- reported costs --------
M_Cost   == ~Near(Cur.cost, SafeLen(Cur.rec), Tr.tol) => Fail("cost-current")
M_BsfLen == ~Near(Cur.bsf, SafeLen(Cur.best), Tr.tol) => Fail("bsf-length-of-best")
M_BsfMin == ~Near(Cur.bsf, minSeen, Tr.tol) => Fail("bsf-min-seen")
M_Mono   == (l > 0 /\ Cur.bsf > Bef.bsf) => Fail("bsf-monotone")
\* -------- rewards (logged ints are rounded floats: one unit per rounding when the instance is not exact) ----
RTol == IF Tr.tol = 0 THEN 0 ELSE 2
M_Reward == (l > 0 /\ ~Near(Cur.rew, Bef.bsf - Cur.bsf, RTol)) => Fail("reward-decrease")
M_Sum    == ~Near(rsum, Tr.init.cost - Cur.bsf, RTol * (1 + nimp)) => Fail("reward-sum")
\* -------- conformance with the transcribed move (valid predecessor tours only) --------
IsJump(a) == a[1] < 0                 \* <<-1>>: step_to_solution(td, rec_best);  <<-2>> \o tour: step_to_solution(td, tour)
Expected(rec, a) == IF a = <<0 - 1>> THEN Bef.best
                    ELSE IF a[1] = 0 - 2 THEN Tail(a)
                    ELSE IF Tr.kind = "pdp" THEN RRApplyAct(rec, a) ELSE Apply(rec, Tr.K, a)
ActShaped(a) == /\ Len(a) = (IF Tr.kind = "pdp" THEN 3 ELSE IF Tr.K = 2 THEN 2 ELSE 3 * Tr.K)
                /\ \A j \in DOMAIN a : a[j] \in Nodes(Tr.n)
                /\ (Tr.kind = "pdp" => a[1] < Tr.n \div 2)
D_Move == (l > 0 /\ ValidTour(Bef.rec) /\ (IsJump(Cur.a) \/ ActShaped(Cur.a)) /\ Cur.rec # Expected(Bef.rec, Cur.a))
          => Fail("move-semantics")
D_Mask == (l > 0 /\ ValidTour(Bef.rec) /\ ~IsJump(Cur.a)
           /\ ~(IF Tr.kind = "pdp" THEN RRAdmitted(Bef.rec, Cur.a) ELSE Admitted(Bef.rec, Tr.K, Cur.a)))
          => PrintT(<<"DRIFT", tid, "move-outside-mask", l>>)
End == (l = Len(Tr.ev)) => PrintT(<<"END", tid>>)
=============================================================================
