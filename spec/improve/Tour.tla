------------------------------- MODULE Tour -------------------------------
(* C09 -- tours of the improvement environments (rl4co ImprovementEnvBase).
   A tour over the nodes 0..n-1 is a SUCCESSOR ARRAY ("linked list"): the
   sequence rec of length n with rec[i+1] = node visited after node i.
   PART 1: what the property talks about (single cycle, precedence, length,
           best-so-far bookkeeping) -- definitions independent of the code.
   PART 2: helpers that transcribe pieces of the code shared by both
           environments (visited_time loop, argsort, _step bookkeeping).     *)
EXTENDS Util, TLC

Nodes(n) == 0..(n - 1)
Nx(rec, i) == rec[i + 1]
Put(rec, i, j) == [rec EXCEPT ![i + 1] = j]

(* ------------------------- PART 1: ground truth ------------------------- *)
WellFormed(rec) == \A i \in DOMAIN rec : rec[i] \in Nodes(Len(rec))
\* <<from, rec[from], rec[rec[from]], ...>>  (k entries)
RECURSIVE Walk(_, _, _)
Walk(rec, from, k) == IF k = 0 THEN <<>> ELSE <<from>> \o Walk(rec, Nx(rec, from), k - 1)
\* the visiting order starting from node 0 (the depot for PDP)
Order(rec) == Walk(rec, 0, Len(rec))
\* one cycle through all nodes: n hops from node 0 visit every node and return to 0
IsSingleCycle(rec) ==
  /\ WellFormed(rec)
  /\ ToSetU(Order(rec)) = Nodes(Len(rec))
  /\ Nx(rec, Last(Order(rec))) = 0
Pos(seq, x) == CHOOSE k \in DOMAIN seq : seq[k] = x
\* PDP with h pairs: nodes 1..h pickups, node p+h the delivery of pickup p; the tour starts at depot 0
PrecedenceOK(rec, h) == \A p \in 1..h : Pos(Order(rec), p) < Pos(Order(rec), p + h)
\* length of the closed tour for the integer distance matrix D (only needs WellFormed)
TourLen(D, rec) == SumSeq([i \in 1..Len(rec) |-> Dist(D, i - 1, rec[i])])

\* the tour whose visiting order is `order` (a permutation of the nodes)
RecOf(order) == [i \in 1..Len(order) |-> order[(Pos(order, i - 1) % Len(order)) + 1]]
RECURSIVE Perms(_)
Perms(S) == IF S = {} THEN {<<>>} ELSE UNION {{<<x>> \o p : p \in Perms(S \ {x})} : x \in S}
\* all tours over n nodes, each once (orders are normalised to start at node 0)
AllTours(n) == {RecOf(<<0>> \o p) : p \in Perms(1..(n - 1))}

(* --------------------- PART 2: shared code fragments -------------------- *)
\* torch.argsort of a permutation = its inverse: Pred(rec)[v+1] = the node whose successor is v
Pred(rec) == [v \in 1..Len(rec) |-> (CHOOSE u \in DOMAIN rec : rec[u] = v - 1) - 1]

\* the visited_time loop of _reset/_step: pre = 0; for i: cur = rec[pre]; vt[cur] = i+1; pre = cur
RECURSIVE VTLoop(_, _, _, _)
VTLoop(rec, vt, pre, i) == IF i = Len(rec) THEN vt
                           ELSE LET c == Nx(rec, pre) IN VTLoop(rec, Put(vt, c, i + 1), c, i + 1)
VisitedTime(rec) == VTLoop(rec, [k \in 1..Len(rec) |-> 0], 0, 0)

\* tensor.scatter_(1, idx, val) applied entry by entry
RECURSIVE Scatter(_, _, _, _)
Scatter(r, idx, val, j) == IF j > Len(idx) THEN r ELSE Scatter(Put(r, idx[j], val[j]), idx, val, j + 1)
\* scatter_ with duplicate indices is only well defined if the duplicates carry the same value
ScatterClash(idx, val) == \E i, j \in DOMAIN idx : idx[i] = idx[j] /\ val[i] # val[j]

\* best-so-far bookkeeping of ImprovementEnv._step, given the tour the move produced:
\*   now_bsf = where(new_obj < cost_bsf, new_obj, cost_bsf); reward = cost_bsf - now_bsf;
\*   rec_best[reward > 0] = next_rec
Book(D, best, cbsf, nextRec) ==
  LET newObj == TourLen(D, nextRec)
      nowBsf == IF newObj < cbsf THEN newObj ELSE cbsf
      reward == cbsf - nowBsf
  IN [cur |-> nextRec, ccur |-> newObj, cbsf |-> nowBsf, rew |-> reward,
      best |-> IF reward > 0 THEN nextRec ELSE best]
=============================================================================
