----------------------------- MODULE DecodeTrace -----------------------------
(* C11 on executions of REAL policies (neural networks with random weights, eval mode) through
   the real decoding loop.  One record per decoded row; log-probabilities in units of 1e-6.
     actions[t]  the action returned for step t          mask[t]   feasible actions at step t (reference loop)
     lp[t]       per-step log-likelihood REPORTED by the policy (return_sum_log_likelihood = False)
     ref[t]      log-probability of actions[t] under the masked, normalised step distribution,
                 recomputed by an independent loop (encoder once, decoder module per step, float64 log-softmax)
     forced[t]   the step was a forced multi-start move (must report 0)
     ll_sum      the summed log-likelihood reported by a second call with return_sum_log_likelihood = True
     eval_lp     per-step log-likelihoods when the returned actions are fed back (evaluate); <<>> if not run
   The specification walks the row step by step (variable l); failing clauses print <<"FAIL", tid, clause, l>>.  *)
EXTENDS Naturals, Integers, Sequences, FiniteSets, TLC, Json, IOUtils

Recs == ndJsonDeserialize(IOEnv.TRACE_FILE)
VARIABLES tid, l, acc
vars == <<tid, l, acc>>
R == Recs[tid]
T == Len(R.actions)
Init == tid \in 1..Len(Recs) /\ l = 0 /\ acc = 0
Next == l < T /\ l' = l + 1 /\ acc' = acc + R.lp[l + 1] /\ UNCHANGED tid
Spec == Init /\ [][Next]_vars
Abs(x) == IF x < 0 THEN -x ELSE x
Tol == 30
Fail(c) == PrintT(<<"FAIL", tid, c, l>>)
SetOf(s) == {s[i] : i \in DOMAIN s}

M_InMask == (l > 0 /\ ~(R.actions[l] \in SetOf(R.mask[l]))) => Fail("action-in-mask")
M_Lp     == (l > 0 /\ ~R.forced[l] /\ Abs(R.lp[l] - R.ref[l]) > Tol) => Fail("logprob-of-taken-action")
M_Forced == (l > 0 /\ R.forced[l] /\ R.lp[l] # 0) => Fail("forced-step-nonzero")
M_Sum    == (l = T /\ Abs(R.ll_sum - acc) > Tol + T) => Fail("sum-of-steps")
M_Eval   == (l > 0 /\ R.eval_lp # <<>> /\ ~R.forced[l] /\ Abs(R.eval_lp[l] - R.lp[l]) > Tol) => Fail("evaluate-round-trip")
M_EvalR  == (l = T /\ R.eval_lp # <<>> /\ R.eval_reward # R.reward) => Fail("evaluate-reward")
End == (l = T) => PrintT(<<"END", tid>>)
=============================================================================
