------------------------------- MODULE Layout -------------------------------
(* C12 -- the replication layout of rl4co.utils.ops (batchify / unbatchify /
   unbatchify_and_gather) and best-of-k selection (DecodingStrategy._select_best),
   as index algebra on sequences.  Tensors are modelled by their leading
   dimension: a sequence whose items are row contents (here: ids).
   Machine L: Init picks a batch size B and a nesting `shape` (e.g. <<k>>,
   <<a, s>>, <<r, a, s>>); one action per _batchify_single / _unbatchify_single
   call, in the order the code performs them (reversed(shape) in BOTH loops).
   Machine S: best-of-k selection over a replicated batch.                    *)
EXTENDS Naturals, Sequences, FiniteSets, TLC

CONSTANTS MaxB, Factors, MaxDepth,     \* machine L
          SB, SK, Rewards              \* machine S: batch size, replication factor, reward values

(* ------------------------------ machine L ------------------------------ *)
VARIABLES B, shape, x, ids, todoB, todoU, phase
varsL == <<B, shape, x, ids, todoB, todoU, phase>>

\* _batchify_single: expand(repeats, *s).view(s[0] * repeats): copy j of row b at j*B + b
BatchifySingle(seq, r) == [i \in 1..(Len(seq) * r) |-> seq[((i - 1) % Len(seq)) + 1]]
\* _unbatchify_single: view(repeats, N/repeats).permute(1, 0): out[m][j] = x[j*(N/repeats) + m]
UnbatchifySingle(seq, r) ==
   LET m == Len(seq) \div r IN [b \in 1..m |-> [j \in 1..r |-> seq[(j - 1) * m + b]]]
Rev(s) == [i \in 1..Len(s) |-> s[Len(s) + 1 - i]]
Prod(s) == IF s = <<>> THEN 1 ELSE LET RECURSIVE P(_) P(t) == IF t = <<>> THEN 1 ELSE Head(t) * P(Tail(t)) IN P(s)

Shapes == UNION {[1..d -> Factors] : d \in 1..MaxDepth}
InitL == /\ B \in 1..MaxB /\ shape \in Shapes
         /\ x = [b \in 1..B |-> b] /\ ids = <<>>
         /\ todoB = Rev(shape) /\ todoU = <<>> /\ phase = "batchify"
StepB == /\ phase = "batchify" /\ todoB # <<>>
         /\ x' = BatchifySingle(x, Head(todoB)) /\ todoB' = Tail(todoB)
         /\ UNCHANGED <<B, shape, ids, todoU, phase>>
\* batchify finished: remember the expanded rows, give every expanded row a unique id, start the inverse
Turn  == /\ phase = "batchify" /\ todoB = <<>>
         /\ phase' = "unbatchify" /\ todoU' = Rev(shape)
         /\ ids' = [i \in 1..Len(x) |-> i]
         /\ UNCHANGED <<B, shape, x, todoB>>
StepU == /\ phase = "unbatchify" /\ todoU # <<>>
         /\ x' = UnbatchifySingle(x, Head(todoU)) /\ ids' = UnbatchifySingle(ids, Head(todoU))
         /\ todoU' = Tail(todoU)
         /\ UNCHANGED <<B, shape, todoB, phase>>
NextL == StepB \/ Turn \/ StepU

\* row r of the expansion belongs to instance r mod B
RowOwner == (phase = "batchify" /\ todoB = <<>>) =>
               /\ Len(x) = B * Prod(shape)
               /\ \A i \in 1..Len(x) : x[i] = ((i - 1) % B) + 1
\* expansion followed by its inverse is the identity: every leaf under out[b] is b
RECURSIVE AllLeaves(_, _, _)          \* d = nesting depth still to descend
AllLeaves(t, b, d) == IF d = 0 THEN t = b ELSE \A k \in DOMAIN t : AllLeaves(t[k], b, d - 1)
RoundTrip == (phase = "unbatchify" /\ todoU = <<>>) =>
               /\ Len(x) = B
               /\ \A b \in 1..B : AllLeaves(x[b], b, Len(shape))
\* with unique row ids: every leaf under out[b] is a row owned by instance b
RECURSIVE AllOwned(_, _, _, _)
AllOwned(t, b, nB, d) == IF d = 0 THEN ((t - 1) % nB) + 1 = b ELSE \A k \in DOMAIN t : AllOwned(t[k], b, nB, d - 1)
RowsStayOwned == (phase = "unbatchify") => \A m \in 1..Len(ids) :
                     AllOwned(ids[m], ((m - 1) % B) + 1, B, Len(shape) - Len(todoU))
EmitL == (phase = "unbatchify" /\ todoU = <<>>) => PrintT(<<"Y", B, shape, x, ids>>)

(* ------------------------------ machine S ------------------------------ *)
\* _select_best: rewards of the B*k rollouts, row j*B + b = rollout j of instance b
VARIABLES rew, pick
varsS == <<rew, pick>>
InitS == rew \in [1..(SB * SK) -> Rewards] /\ pick = <<>>
\* unbatchify(rewards, k).max(-1): for every instance ANY maximiser among its own k rollouts
Choose == /\ pick = <<>>
          /\ pick' \in {p \in [1..SB -> 1..SK] :
                          \A b \in 1..SB : \A j \in 1..SK : rew[(p[b] - 1) * SB + b] >= rew[(j - 1) * SB + b]}
          /\ UNCHANGED rew
NextS == Choose
\* unbatchify_and_gather(rows, idx, k): the selected ROW of instance b
PickedRow(b) == (pick[b] - 1) * SB + b
BestIsOwnMax == pick # <<>> => \A b \in 1..SB :
                  /\ ((PickedRow(b) - 1) % SB) + 1 = b                       \* a rollout of instance b
                  /\ \A i \in 1..(SB * SK) : ((i - 1) % SB) + 1 = b => rew[i] <= rew[PickedRow(b)]
EmitS == pick # <<>> => PrintT(<<"B", rew, [b \in 1..SB |-> PickedRow(b)]>>)

InitAll == InitL /\ InitS
InitLL == InitL /\ rew = <<>> /\ pick = <<>>
NextLL == NextL /\ UNCHANGED varsS
InitSS == InitS /\ B = 1 /\ shape = <<>> /\ x = <<>> /\ ids = <<>> /\ todoB = <<>> /\ todoU = <<>> /\ phase = "idle"
NextSS == NextS /\ UNCHANGED varsL
=============================================================================
