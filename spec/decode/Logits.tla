------------------------------- MODULE Logits -------------------------------
(* C10 -- the logits -> distribution pipeline of rl4co.utils.decoding.process_logits
   on EXACT arithmetic: a logit is ln(w) for an integer weight w >= 1, so the
   softmax is w_i / sum(w) (a rational) and
       masking         = weight 0 (logit -inf)
       temperature T   = w^(1/T):  "half" -> w^2, "one" -> w, "two" -> sqrt(w) (perfect squares)
       top-k           = drop entries strictly below the k-th largest (ties kept)
       top-p           = sort ascending, drop the prefix whose cumulative mass <= 1 - p
       log_softmax     = normalise.
   One action per stage of the code, in the code's order.  `ord` is the ascending
   order torch.sort picks (any order consistent with the weights: ties are not
   stable); on an exact tie cum = 1-p float rounding may fall either side, so the
   model branches both ways.  The invariants are the clauses of property C10.
   Terminal states are printed and replayed into the real process_logits.      *)
EXTENDS Naturals, Integers, Sequences, FiniteSets, TLC

CONSTANTS N,        \* number of actions
          Weights,  \* set of integer weights (perfect squares when "two" \in Temps)
          Temps, Ks,
          Ps, PD    \* top-p values: p = x / PD for x \in Ps  (0 <= x <= PD)
VARIABLES w, m, T, k, p, stage, cur, sumK, ord
vars == <<w, m, T, k, p, stage, cur, sumK, ord>>

Idx == 1..N
RECURSIVE SumF(_, _)
SumF(f, S) == IF S = {} THEN 0 ELSE LET x == CHOOSE y \in S : TRUE IN f[x] + SumF(f, S \ {x})
Total(f) == SumF(f, Idx)
Support(f) == {i \in Idx : f[i] > 0}
Sqrt(x) == CHOOSE r \in 0..x : r * r = x

AfterMask(v, mask) == [i \in Idx |-> IF i \in mask THEN v[i] ELSE 0]
AfterTemp(v, t) == [i \in Idx |-> IF t = "half" THEN v[i] * v[i]
                                   ELSE IF t = "two" THEN Sqrt(v[i]) ELSE v[i]]
\* k-th largest value (zeros = -inf included), entries strictly below are removed
KthLargest(v, kk) == CHOOSE x \in {v[i] : i \in Idx} :
                        /\ Cardinality({i \in Idx : v[i] > x}) < kk
                        /\ Cardinality({i \in Idx : v[i] >= x}) >= kk
AfterTopK(v, kk) == IF kk = 0 THEN v
                    ELSE LET thr == KthLargest(v, IF kk > N THEN N ELSE kk)
                         IN [i \in Idx |-> IF v[i] < thr THEN 0 ELSE v[i]]
\* ascending orders torch.sort may return
Orders(v) == {o \in [Idx -> Idx] : (\A i, j \in Idx : i # j => o[i] # o[j])
                                   /\ \A i \in 1..(N - 1) : v[o[i]] <= v[o[i + 1]]}
Cum(v, o, j) == SumF([i \in Idx |-> v[o[i]]], 1..j)
\* positions (in sorted order) that are removed; `strict` resolves an exact tie the other way
Removed(v, o, pp, strict) ==
   {j \in Idx : IF strict THEN Cum(v, o, j) * pp[2] <  (pp[2] - pp[1]) * Total(v)
                          ELSE Cum(v, o, j) * pp[2] <= (pp[2] - pp[1]) * Total(v)}
AfterTopP(v, o, pp, strict) ==
   IF pp[1] = 0 \/ pp[1] = pp[2] THEN v
   ELSE LET rm == Removed(v, o, pp, strict) IN
        [i \in Idx |-> IF \E j \in rm : o[j] = i THEN 0 ELSE v[i]]

Init == /\ w \in [Idx -> Weights]
        /\ m \in (SUBSET Idx) \ {{}}
        /\ T \in Temps /\ k \in Ks /\ p \in {<<x, PD>> : x \in Ps}
        /\ stage = "mask" /\ cur = w /\ sumK = 0 /\ ord = [i \in Idx |-> i]

MaskStep == stage = "mask" /\ cur' = AfterMask(cur, m) /\ stage' = "temp" /\ UNCHANGED <<w, m, T, k, p, sumK, ord>>
TempStep == stage = "temp" /\ cur' = AfterTemp(cur, T) /\ stage' = "topk" /\ UNCHANGED <<w, m, T, k, p, sumK, ord>>
TopKStep == stage = "topk" /\ cur' = AfterTopK(cur, k) /\ sumK' = Total(AfterTopK(cur, k)) /\ stage' = "topp"
            /\ UNCHANGED <<w, m, T, k, p, ord>>
TopPStep == /\ stage = "topp"
            /\ \E o \in Orders(cur) : \E strict \in BOOLEAN :
                 /\ cur' = AfterTopP(cur, o, p, strict)
                 /\ ord' = o
            /\ stage' = "done" /\ UNCHANGED <<w, m, T, k, p, sumK>>
Next == MaskStep \/ TempStep \/ TopKStep \/ TopPStep
Spec == Init /\ [][Next]_vars

\* --------------------------- the clauses of C10 ---------------------------
Scaled == AfterTemp(AfterMask(w, m), T)            \* the unfiltered distribution (up to normalisation)
AtEnd == stage = "done"
Proper        == AtEnd => Total(cur) > 0                                   \* normalisable: sums to one
SupportInMask == AtEnd => Support(cur) \subseteq m                          \* zero probability on masked actions
KeptValuesUnchanged == AtEnd => \A i \in Support(cur) : cur[i] = Scaled[i]  \* filtering only removes
ArgmaxKept    == AtEnd => \E i \in Support(cur) : \A j \in m : Scaled[j] <= Scaled[i]
TopKBound     == (AtEnd /\ k > 0) =>
                   \/ Cardinality(Support(cur)) <= k
                   \/ \E i, j \in Support(cur) : i # j /\ Scaled[i] = Scaled[j]
                                                  /\ \A x \in Support(cur) : Scaled[x] >= Scaled[i]
TopPMass      == AtEnd => Total(cur) * p[2] >= p[1] * sumK                  \* kept mass >= p of what top-p received
TopPMassUnfiltered == (AtEnd /\ k = 0) => Total(cur) * p[2] >= p[1] * Total(Scaled)
GreedyOK      == AtEnd => \A i \in Idx : (\A j \in Idx : cur[j] <= cur[i]) =>
                                          (i \in m /\ \A j \in m : Scaled[j] <= Scaled[i])
\* adding a constant to all logits (= multiplying all weights by C) changes nothing
Shift(v) == [i \in Idx |-> 4 * v[i]]
ShiftInvariant == stage = "mask" =>
   \A o \in Orders(AfterTopK(AfterTemp(AfterMask(w, m), T), k)) : \A strict \in BOOLEAN :
      LET a == AfterTopP(AfterTopK(AfterTemp(AfterMask(w, m), T), k), o, p, strict)
          b == AfterTopP(AfterTopK(AfterTemp(AfterMask(Shift(w), m), T), k), o, p, strict)
      IN /\ Support(a) = Support(b)
         /\ \A i \in Idx : a[i] * Total(b) = b[i] * Total(a)

Emit == AtEnd => PrintT(<<"L", w, m, T, k, p, cur>>)
=============================================================================
