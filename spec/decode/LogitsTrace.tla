----------------------------- MODULE LogitsTrace -----------------------------
(* C10 on executions of the REAL rl4co.utils.decoding.process_logits /
   DecodingStrategy.greedy / DecodingStrategy.sampling.  One ndjson record per
   call (arbitrary float logits: ties, huge magnitudes, one feasible action;
   any temperature / top-k / top-p / tanh clipping), probabilities logged as
   integers in units of 1e-6.  Indices are 1-based.
     mask   feasible indices                 sup    indices with log-prob > -inf
     rank   dense rank of every (clipped, temperature-scaled) logit, 1 = largest (exact float ties share a rank)
     aftk   distribution after masking/temperature/top-k only (what top-p receives)
     unf    distribution with no filter          fin   the returned distribution
     shift  fin recomputed with a constant added to all logits (exactly representable), [] when clipping is on
     model  (exact families only) the set of results the Logits specification allows
   Monitors print <<"FAIL", tid, clause>>; Conf prints <<"DRIFT", tid>>.       *)
EXTENDS Naturals, Integers, Sequences, FiniteSets, TLC, Json, IOUtils

Recs == ndJsonDeserialize(IOEnv.TRACE_FILE)
VARIABLE tid
Init == tid \in 1..Len(Recs)
Next == UNCHANGED tid
Spec == Init /\ [][Next]_tid

R == Recs[tid]
Idx == 1..R.n
SetOf(seq) == {seq[i] : i \in DOMAIN seq}
Mask == SetOf(R.mask)
Sup  == SetOf(R.sup)
RECURSIVE SumOver(_, _)
SumOver(f, S) == IF S = {} THEN 0 ELSE LET x == CHOOSE y \in S : TRUE IN f[x] + SumOver(f, S \ {x})
Abs(x) == IF x < 0 THEN -x ELSE x
Tol == 25                                   \* 2.5e-5: float32 softmax + integer rounding of n entries
BestRank == CHOOSE r \in {R.rank[i] : i \in Mask} : \A j \in Mask : R.rank[j] >= r
Fail(c) == PrintT(<<"FAIL", tid, c>>)

\* greedy / sampling raised (the library's own "infeasible action selected" assertion, NaN probabilities ...)
M_Crash   == (R.crash # "") => Fail("decode-raised")
M_Support == ~(Sup \subseteq Mask /\ Sup # {}) => Fail("support-in-mask")
M_Norm    == (Abs(SumOver(R.fin, Idx) - 1000000) > Tol) => Fail("normalised")
M_ZeroOutside == (\E i \in Idx \ Sup : R.fin[i] # 0) => Fail("zero-outside-support")
M_Argmax  == ~(\E i \in Sup : R.rank[i] = BestRank) => Fail("argmax-kept")
\* no more than k kept, ties aside: fewer than k kept entries are strictly better than the worst kept one
M_TopK    == (R.k > 0 /\ Sup # {} /\
               LET worst == CHOOSE r \in {R.rank[i] : i \in Sup} : \A j \in Sup : R.rank[j] <= r
               IN Cardinality({i \in Sup : R.rank[i] < worst}) >= R.k) => Fail("top-k")
\* at least mass p (of the distribution top-p receives; = the unfiltered one when k = 0) is kept
M_TopP    == (R.p1000 > 0 /\ SumOver(R.aftk, Sup) * 1000 < R.p1000 * 1000000 - Tol * 1000) => Fail("top-p-mass")
M_TopPUnf == (R.p1000 > 0 /\ R.k = 0 /\ SumOver(R.unf, Sup) * 1000 < R.p1000 * 1000000 - Tol * 1000)
                => Fail("top-p-mass-unfiltered")
\* filtering only removes: the kept entries keep their relative weights (renormalised)
M_Shift   == (R.shift # <<>> /\ \E i \in Idx : Abs(R.shift[i] - R.fin[i]) > Tol) => Fail("shift-invariance")
M_Greedy  == ~(R.greedy \in Sup /\ R.rank[R.greedy] = BestRank) => Fail("greedy-argmax")
M_Samples == (\E j \in DOMAIN R.samples : ~(R.samples[j] \in Sup)) => Fail("sample-in-support")
Conf == (R.model # <<>> /\ ~\E j \in DOMAIN R.model :
            /\ {i \in Idx : R.model[j][i] > 0} = Sup
            /\ LET tot == SumOver(R.model[j], Idx) IN
               \A i \in Idx : Abs(R.fin[i] * tot - R.model[j][i] * 1000000) <= Tol * tot)
        => PrintT(<<"DRIFT", tid>>)
End == PrintT(<<"END", tid>>)
=============================================================================
