------------------------------ MODULE LayoutIdx ------------------------------
(* C12, unbounded part -- the index algebra of spec/decode/Layout.tla restated POINTWISE (which source row does an output
   row read?), so that it is plain integer arithmetic a symbolic tool can reason about for ALL batch sizes / factors:

     BatchifySingle(seq, r)[i]      = seq[BSrc(Len(seq), i)]          for i \in 1..Len(seq)*r
     UnbatchifySingle(seq, r)[b][j] = seq[USrc(Len(seq), r, b, j)]    for b \in 1..Len(seq)\div r, j \in 1..r
     PickedRow(b)                   = Picked(SB, b, pick[b])
     "row i belongs to instance"      Owner(B, i)                     (the expression ((i - 1) % B) + 1 of Layout.tla)

   This module is EXTENDed both by MC_Layout_apa.tla (Apalache, all integers) and by MC_Layout_eq.tla (TLC: the four
   equations above against the operators of Layout.tla on the bounded scope of C12), so the restatement and Layout.tla
   cannot drift apart unnoticed.  The @type comments are Apalache annotations (comments to TLC/SANY).                  *)
EXTENDS Integers

\* @type: (Int, Int) => Int;
Owner(nB, i) == ((i - 1) % nB) + 1
\* @type: (Int, Int) => Int;
BSrc(len, i) == ((i - 1) % len) + 1
\* @type: (Int, Int, Int, Int) => Int;
USrc(len, r, b, j) == (j - 1) * (len \div r) + b
\* @type: (Int, Int, Int) => Int;
Picked(nB, b, p) == (p - 1) * nB + b
=============================================================================
