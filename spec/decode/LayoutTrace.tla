----------------------------- MODULE LayoutTrace -----------------------------
(* C12 on executions of the REAL code.  Record kinds (one ndjson line each):
   "starts": env.select_start_nodes(td, k) on a reset batch of B instances.
        mask[b]  feasible first actions of instance b (1-based action ids) after reset
        sel[r]   forced start of expanded row r (row r belongs to instance (r-1) mod B + 1)
   "decode": a multistart / multisample decode of a provenance-carrying batch
        owner[r] instance id carried by expanded row r (rides in the TensorDict through batchify)
        rew[r]   reward of row r;  with select_best: best[b] = <<reward, row>> reported for instance b
   Monitors print <<"FAIL", tid, clause>>.                                      *)
EXTENDS Naturals, Sequences, FiniteSets, TLC, Json, IOUtils

Recs == ndJsonDeserialize(IOEnv.TRACE_FILE)
VARIABLE tid
Init == tid \in 1..Len(Recs)
Next == UNCHANGED tid
Spec == Init /\ [][Next]_tid
R == Recs[tid]
SetOf(s) == {s[i] : i \in DOMAIN s}
Owner(r) == ((r - 1) % R.B) + 1
Fail(c) == PrintT(<<"FAIL", tid, c>>)
IsStarts == R.kind = "starts"
IsDecode == R.kind = "decode"

\* forced starts are feasible for their own instance
M_StartFeasible == (IsStarts /\ \E r \in DOMAIN R.sel : ~(R.sel[r] \in SetOf(R.mask[Owner(r)]))) => Fail("start-feasible")
\* pairwise distinct per instance whenever at least k feasible starts exist
M_StartDistinct == (IsStarts /\ \E b \in 1..R.B :
                      /\ Cardinality(SetOf(R.mask[b])) >= R.k
                      /\ \E r1, r2 \in DOMAIN R.sel : r1 # r2 /\ Owner(r1) = b /\ Owner(r2) = b /\ R.sel[r1] = R.sel[r2])
                   => Fail("start-distinct")
M_StartCount == (IsStarts /\ Len(R.sel) # R.B * R.k) => Fail("start-count")

\* row r of every output belongs to instance r mod B
M_RowOwner == (IsDecode /\ \E r \in DOMAIN R.owner : R.owner[r] # Owner(r)) => Fail("row-owner")
\* best-selection: the maximum over the instance's own rollouts, with that rollout's row
M_Best == (IsDecode /\ R.best # <<>> /\ \E b \in 1..R.B :
             LET br == R.best[b][2] IN
             \/ Owner(br) # b
             \/ R.best[b][1] # R.rew[br]
             \/ \E r \in DOMAIN R.rew : Owner(r) = b /\ R.rew[r] > R.best[b][1]) => Fail("best-of-own-k")
End == PrintT(<<"END", tid>>)
=============================================================================
