-------------------------- MODULE LayoutIdx_proofs --------------------------
(* C12, UNBOUNDED -- machine-checked PROOFS (TLAPS: tlapm with the SMT (Z3), Zenon and Isabelle back ends) of the index
   algebra of LayoutIdx.tla for ALL natural batch sizes / factors / row numbers, in the DIRECT form (with % and \div as in
   Layout.tla, no ghost quotients) on which Apalache/Z3 alone diverges (MC_Layout_apa.tla proves the same facts through an
   inductive invariant that carries the quotients).  tlapm cannot load Layout.tla itself (it rejects RECURSIVE), so the
   theorems are about the pointwise operators of LayoutIdx.tla, which MC_Layout_eq.tla (TLC) equates with
   BatchifySingle / UnbatchifySingle / PickedRow of Layout.tla on the bounded scope.

     OwnerOfCopy           owner(replica) = replica mod B
     ModMod                (x % (B*q)) % B = x % B
     BatchifyKeepsOwner    ONE StepB at ANY depth preserves  "x[i] = Owner(B, i)"            (induction step of RowOwner)
     Stride, UnbatchifyKeepsOwner   ONE StepU at ANY depth preserves "leaves below row b are owned by Owner(B, b)"
                                                                                            (induction step of RowsStayOwned)
     RoundTrip1            unbatchify(batchify(x, r), r)[b][j] = x[b]   for x of any length
     BestOfK               BestIsOwnMax of machine S for ANY B, K and ANY integer reward function
   Division by a symbolic divisor is handled through DivModDef (what the SMT back end knows) and DivModUnique (proved here). *)
EXTENDS LayoutIdx, TLAPS

(* ------------------------- integer division / modulo with a SYMBOLIC divisor ------------------------- *)
LEMMA DivModDef == ASSUME NEW x \in Int, NEW n \in Nat \ {0}
                   PROVE  /\ x \div n \in Int /\ x % n \in 0..(n - 1) /\ x = n * (x \div n) + (x % n)
  OBVIOUS

LEMMA MulMono == ASSUME NEW n \in Nat \ {0}, NEW k \in Int, k >= 1 PROVE n * k >= n
  OBVIOUS

LEMMA MulPos == ASSUME NEW n \in Nat \ {0}, NEW k \in Nat \ {0} PROVE n * k \in Nat \ {0}
  <1>1. n * k >= n BY MulMono
  <1>2. n * k \in Int OBVIOUS
  <1> QED BY <1>1, <1>2

LEMMA DivModUnique == ASSUME NEW n \in Nat \ {0}, NEW a \in Int, NEW u \in 0..(n - 1)
                      PROVE  (a * n + u) % n = u /\ (a * n + u) \div n = a
<1> DEFINE x == a * n + u
           k == x \div n
           m == x % n
<1>1. x \in Int OBVIOUS
<1>2. k \in Int /\ m \in 0..(n - 1) /\ x = n * k + m
  BY <1>1, DivModDef
<1>2a. a * n + u = n * k + m BY <1>2 DEF x
<1> HIDE DEF x, k, m
<1>3. n * (a - k) = m - u
  <2>2. n * (a - k) = a * n - n * k BY <1>2
  <2> QED BY <1>2a, <2>2, <1>2
<1>4. a - k = 0
  <2>1. CASE a - k >= 1
    <3>1. n * (a - k) >= n BY <2>1, <1>2, MulMono
    <3> QED BY <3>1, <1>3, <1>2
  <2>2. CASE k - a >= 1
    <3>1. n * (k - a) >= n BY <2>2, <1>2, MulMono
    <3>2. n * (a - k) = -(n * (k - a)) BY <1>2
    <3> QED BY <3>1, <3>2, <1>3, <1>2
  <2> QED BY <2>1, <2>2, <1>2
<1>5. a = k BY <1>4, <1>2
<1>6. m = u BY <1>3, <1>5, <1>2
<1> QED BY <1>5, <1>6 DEF x, k, m

\* the same with the factors in either order and as one hypothesis
LEMMA ModOf == ASSUME NEW n \in Nat \ {0}, NEW a \in Int, NEW u \in 0..(n - 1), NEW x \in Int, x = n * a + u
               PROVE  x % n = u /\ x \div n = a
  <1>1. n * a = a * n OBVIOUS
  <1> QED BY <1>1, DivModUnique

(* ----------------------------------------- the layout facts ----------------------------------------- *)
\* owner(replica) = replica mod B: copy j of instance b sits at row (j-1)*B + b
THEOREM OwnerOfCopy == ASSUME NEW nB \in Nat \ {0}, NEW b \in 1..nB, NEW j \in Nat \ {0}
                       PROVE  Owner(nB, (j - 1) * nB + b) = b
  <1>1. ((j - 1) * nB + b) - 1 = nB * (j - 1) + (b - 1) OBVIOUS
  <1>2. (((j - 1) * nB + b) - 1) % nB = b - 1 BY <1>1, ModOf
  <1> QED BY <1>2 DEF Owner

\* reducing modulo a multiple of B first does not change the residue modulo B
THEOREM ModMod == ASSUME NEW x \in Int, NEW nB \in Nat \ {0}, NEW q \in Nat \ {0}
                  PROVE  (x % (nB * q)) % nB = x % nB
<1> DEFINE N == nB * q
<1>0. N \in Nat \ {0} BY MulPos
<1> DEFINE k1 == x \div N
           m1 == x % N
<1>1. k1 \in Int /\ m1 \in 0..(N - 1) /\ x = N * k1 + m1 BY <1>0, DivModDef
<1> DEFINE k2 == m1 \div nB
           m2 == m1 % nB
<1>2. k2 \in Int /\ m2 \in 0..(nB - 1) /\ m1 = nB * k2 + m2 BY <1>1, <1>0, DivModDef
<1>3. x = nB * (q * k1 + k2) + m2
  <2> HIDE DEF N, k1, m1, k2, m2
  <2>1. x = (nB * q) * k1 + (nB * k2 + m2) BY <1>1, <1>2 DEF N
  <2>2. (nB * q) * k1 = nB * (q * k1) BY <1>1
  <2>3. nB * (q * k1) + nB * k2 = nB * (q * k1 + k2) BY <1>1, <1>2
  <2> QED BY <2>1, <2>2, <2>3, <1>1, <1>2
<1>4. q * k1 + k2 \in Int BY <1>1, <1>2
<1>5. x % nB = m2 BY <1>2, <1>3, <1>4, ModOf
<1> QED BY <1>5

\* ONE StepB of Layout.tla, ANY depth: row i of BatchifySingle(x, r) reads row BSrc(Len(x), i) of x, and when Len(x) is a
\* multiple of B that row has the same owner -- so "x[i] = Owner(B, i) for all i" (RowOwner) is preserved by every StepB.
\* (This is the direct, ghost-free form of the induction step of machine LB of MC_Layout_apa.tla, on which Z3 alone diverges.)
THEOREM BatchifyKeepsOwner == ASSUME NEW nB \in Nat \ {0}, NEW q \in Nat \ {0}, NEW i \in Nat \ {0}
                              PROVE  /\ BSrc(nB * q, i) \in 1..(nB * q)
                                     /\ Owner(nB, BSrc(nB * q, i)) = Owner(nB, i)
<1> DEFINE N == nB * q
<1>0. N \in Nat \ {0} BY MulPos
<1>1. (i - 1) % N \in 0..(N - 1) BY <1>0, DivModDef
<1>2. ((i - 1) % N) % nB = (i - 1) % nB BY ModMod
<1>3. (((i - 1) % N) + 1) - 1 = (i - 1) % N BY <1>1
<1> QED BY <1>1, <1>2, <1>3 DEF BSrc, Owner

\* the stride of UnbatchifySingle on B * (r * s) rows split by r is B * s
THEOREM Stride == ASSUME NEW nB \in Nat \ {0}, NEW r \in Nat \ {0}, NEW s \in Nat \ {0}, NEW b \in Int, NEW j \in Int
                  PROVE  USrc(nB * (r * s), r, b, j) = (j - 1) * (nB * s) + b
<1> DEFINE a == nB * s
<1>0. a \in Nat \ {0} BY MulPos
<1>1. nB * (r * s) = r * a + 0
  <2>1. nB * (r * s) = nB * (s * r) OBVIOUS
  <2>2. nB * (s * r) = (nB * s) * r OBVIOUS
  <2> QED BY <2>1, <2>2
<1>2. nB * (r * s) \in Int OBVIOUS
<1>3. (nB * (r * s)) \div r = a BY <1>0, <1>1, <1>2, ModOf
<1> QED BY <1>3 DEF USrc

\* ONE StepU of Layout.tla, ANY depth: the rows below out[b] come from rows with the owner of b
THEOREM UnbatchifyKeepsOwner == ASSUME NEW nB \in Nat \ {0}, NEW r \in Nat \ {0}, NEW s \in Nat \ {0},
                                       NEW b \in 1..(nB * s), NEW j \in 1..r
                                PROVE  /\ USrc(nB * (r * s), r, b, j) \in 1..(nB * (r * s))
                                       /\ Owner(nB, USrc(nB * (r * s), r, b, j)) = Owner(nB, b)
<1> DEFINE a == nB * s
           k == (b - 1) \div nB
           m == (b - 1) % nB
<1>0. a \in Nat \ {0} BY MulPos
<1>1. USrc(nB * (r * s), r, b, j) = (j - 1) * a + b BY Stride
<1>2. k \in Int /\ m \in 0..(nB - 1) /\ b - 1 = nB * k + m BY DivModDef
<1>3. ((j - 1) * a + b) - 1 = nB * ((j - 1) * s + k) + m
  <2> HIDE DEF k, m
  <2>1. (j - 1) * (nB * s) = nB * ((j - 1) * s) OBVIOUS
  <2>2. nB * ((j - 1) * s) + nB * k = nB * ((j - 1) * s + k) BY <1>2
  <2> QED BY <2>1, <2>2, <1>2
<1>4. (j - 1) * s + k \in Int BY <1>2
<1>5. (((j - 1) * a + b) - 1) % nB = m BY <1>2, <1>3, <1>4, ModOf
<1>6. Owner(nB, (j - 1) * a + b) = Owner(nB, b) BY <1>5 DEF Owner
<1>7. (j - 1) * a + b \in 1..(nB * (r * s))
  <2>1. (j - 1) * a + b >= 1
    <3>1. CASE j = 1 BY <3>1
    <3>2. CASE j > 1
      <4>1. a * (j - 1) >= a BY <3>2, <1>0, MulMono
      <4>2. a * (j - 1) = (j - 1) * a OBVIOUS
      <4> QED BY <4>1, <4>2, <1>0
    <3> QED BY <3>1, <3>2
  <2>2. (j - 1) * a + b <= r * a
    <3>1. r * a = (j - 1) * a + (r - j + 1) * a OBVIOUS
    <3>2. (r - j + 1) * a >= a
      <4>1. a * (r - j + 1) >= a BY <1>0, MulMono
      <4>2. a * (r - j + 1) = (r - j + 1) * a OBVIOUS
      <4> QED BY <4>1, <4>2
    <3> QED BY <3>1, <3>2, <1>0
  <2>3. r * a = nB * (r * s)
    <3>1. r * (nB * s) = (r * nB) * s OBVIOUS
    <3>2. (r * nB) * s = (nB * r) * s OBVIOUS
    <3>3. (nB * r) * s = nB * (r * s) OBVIOUS
    <3> QED BY <3>1, <3>2, <3>3
  <2>4. (j - 1) * a + b \in Int BY <1>0
  <2> QED BY <2>1, <2>2, <2>3, <2>4
<1> QED BY <1>1, <1>6, <1>7

\* one level, x of ANY length s: unbatchify(batchify(x, r), r)[b][j] = x[b]
THEOREM RoundTrip1 == ASSUME NEW s \in Nat \ {0}, NEW r \in Nat \ {0}, NEW b \in 1..s, NEW j \in 1..r
                      PROVE  BSrc(s, USrc(s * r, r, b, j)) = b
<1>1. s * r = r * s + 0 OBVIOUS
<1>2. s * r \in Int OBVIOUS
<1>3. (s * r) \div r = s BY <1>1, <1>2, ModOf
<1>4. USrc(s * r, r, b, j) = (j - 1) * s + b BY <1>3 DEF USrc
<1>5. ((j - 1) * s + b) - 1 = s * (j - 1) + (b - 1) OBVIOUS
<1>6. (((j - 1) * s + b) - 1) % s = b - 1 BY <1>5, ModOf
<1> QED BY <1>4, <1>6 DEF BSrc

\* _select_best (machine S of Layout.tla) for ANY batch size nB, ANY number K of rollouts and ANY reward function:
\* if p maximises the reward over the K rollouts (j-1)*nB + b of instance b (the guard of Layout.Choose), then the picked
\* row is a row of the expansion owned by b and no row owned by b has a larger reward (BestIsOwnMax).
THEOREM BestOfK == ASSUME NEW nB \in Nat \ {0}, NEW K \in Nat \ {0}, NEW rew, NEW b \in 1..nB, NEW p \in 1..K,
                          \A i \in 1..(nB * K) : rew[i] \in Int,
                          \A j \in 1..K : rew[Picked(nB, b, p)] >= rew[Picked(nB, b, j)]
                   PROVE  /\ Picked(nB, b, p) \in 1..(nB * K)
                          /\ Owner(nB, Picked(nB, b, p)) = b
                          /\ \A i \in 1..(nB * K) : Owner(nB, i) = b => rew[i] <= rew[Picked(nB, b, p)]
<1>1. Owner(nB, Picked(nB, b, p)) = b BY OwnerOfCopy DEF Picked
<1>2. \A j \in 1..K : Picked(nB, b, j) \in 1..(nB * K)
  <2> TAKE j \in 1..K
  <2>1. (j - 1) * nB + b >= 1
    <3>1. CASE j = 1 BY <3>1
    <3>2. CASE j > 1
      <4>1. nB * (j - 1) >= nB BY <3>2, MulMono
      <4>2. nB * (j - 1) = (j - 1) * nB OBVIOUS
      <4> QED BY <4>1, <4>2
    <3> QED BY <3>1, <3>2
  <2>2. (j - 1) * nB + b <= nB * K
    <3>1. nB * K = (j - 1) * nB + (K - j + 1) * nB OBVIOUS
    <3>2. (K - j + 1) * nB >= nB
      <4>1. nB * (K - j + 1) >= nB BY MulMono
      <4>2. nB * (K - j + 1) = (K - j + 1) * nB OBVIOUS
      <4> QED BY <4>1, <4>2
    <3> QED BY <3>1, <3>2
  <2>3. (j - 1) * nB + b \in Int OBVIOUS
  <2> QED BY <2>1, <2>2, <2>3 DEF Picked
<1>3. \A i \in 1..(nB * K) : Owner(nB, i) = b => rew[i] <= rew[Picked(nB, b, p)]
  <2> TAKE i \in 1..(nB * K)
  <2> HAVE Owner(nB, i) = b
  <2> DEFINE k == (i - 1) \div nB
             m == (i - 1) % nB
  <2>1. k \in Int /\ m \in 0..(nB - 1) /\ i - 1 = nB * k + m BY DivModDef
  <2>2. m = b - 1 BY DEF Owner
  <2> HIDE DEF k, m
  <2>3. k >= 0
    <3>1. CASE k <= -1
      <4>1. nB * (-k) >= nB BY <3>1, <2>1, MulMono
      <4>2. nB * k = -(nB * (-k)) BY <2>1
      <4> QED BY <4>1, <4>2, <2>1
    <3> QED BY <3>1, <2>1
  <2>4. k + 1 <= K
    <3>1. CASE k - K >= 0
      <4>1. nB * k = nB * K + nB * (k - K) BY <2>1
      <4>2. nB * (k - K) >= 0
        <5>1. CASE k - K = 0 BY <5>1
        <5>2. CASE k - K >= 1
          <6>1. nB * (k - K) >= nB BY <5>2, <2>1, MulMono
          <6> QED BY <6>1, <2>1
        <5> QED BY <5>1, <5>2, <3>1, <2>1
      <4> QED BY <4>1, <4>2, <2>1
    <3> QED BY <3>1, <2>1
  <2>5. k + 1 \in 1..K BY <2>1, <2>3, <2>4
  <2>6. Picked(nB, b, k + 1) = i
    <3>1. ((k + 1) - 1) * nB = nB * k BY <2>1
    <3> QED BY <3>1, <2>1, <2>2 DEF Picked
  <2>7. rew[Picked(nB, b, p)] >= rew[Picked(nB, b, k + 1)] BY <2>5
  <2>8. rew[i] \in Int /\ rew[Picked(nB, b, p)] \in Int BY <1>2
  <2> QED BY <2>6, <2>7, <2>8
<1> QED BY <1>1, <1>2, <1>3
=============================================================================
