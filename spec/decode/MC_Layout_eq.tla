----------------------------- MODULE MC_Layout_eq -----------------------------
(* C12, unbounded part -- TLC-checked EQUIVALENCE between the operators of Layout.tla (sequences) and their pointwise
   restatement in LayoutIdx.tla (integer index maps), on the bounded scope C12 explores.  MC_Layout_apa.tla proves the
   properties of the index maps for ALL integers with Apalache; this module is what ties those index maps to Layout.tla:

     EqConst    (ASSUME, evaluated once) for every length n <= EqN and factor r <= EqR, on a sequence of distinct items:
                  BatchifySingle(seq, r)   = [i |-> seq[BSrc(n, i)]]
                  UnbatchifySingle(seq, r) = [b |-> [j |-> seq[USrc(n, r, b, j)]]]
     EqStepB / EqStepU  (action properties of machine L) the same two equations on every StepB / StepU TLC explores
     EqShape    the side conditions the abstract machines of MC_Layout_apa.tla assume: during batchify Len(x) is
                  B * (product of the factors applied so far); during unbatchify Len(ids) = B * Prod(todoU), so the next
                  factor divides the current length and the quotient is again a multiple of B
     EqOwner / EqPicked  the ownership expression and PickedRow are Owner / Picked of LayoutIdx.tla

   Run with INIT InitLL NEXT NextLL (machine L) and INIT InitSS NEXT NextSS (machine S), constants as in c12.py.     *)
EXTENDS Layout, LayoutIdx

EqN == 12
EqR == 5
EqBatchify(n, r) == LET seq == [i \in 1..n |-> 100 + i] IN
   BatchifySingle(seq, r) = [i \in 1..(n * r) |-> seq[BSrc(n, i)]]
EqUnbatchify(n, r) == LET seq == [i \in 1..n |-> 100 + i] IN
   UnbatchifySingle(seq, r) = [b \in 1..(n \div r) |-> [j \in 1..r |-> seq[USrc(n, r, b, j)]]]
EqConst == \A n \in 1..EqN : \A r \in 1..EqR : EqBatchify(n, r) /\ (r <= n => EqUnbatchify(n, r))
ASSUME EqConst

vars == <<varsL, varsS>>
EqStepB == [][StepB => x' = [i \in 1..(Len(x) * Head(todoB)) |-> x[BSrc(Len(x), i)]]]_vars
EqStepU == [][StepU => LET r == Head(todoU) IN
                 /\ ids' = [b \in 1..(Len(ids) \div r) |-> [j \in 1..r |-> ids[USrc(Len(ids), r, b, j)]]]
                 /\ x'   = [b \in 1..(Len(x) \div r)   |-> [j \in 1..r |-> x[USrc(Len(x), r, b, j)]]]]_vars
EqShape == /\ phase = "batchify" => Len(x) * Prod(todoB) = B * Prod(shape)
           /\ phase = "unbatchify" => (Len(ids) = B * Prod(todoU) /\ Len(x) = Len(ids))
EqOwner == (phase = "batchify" /\ todoB = <<>>) => \A i \in 1..Len(x) : (x[i] = ((i - 1) % B) + 1) <=> (x[i] = Owner(B, i))
EqPicked == pick # <<>> => \A b \in 1..SB : /\ PickedRow(b) = Picked(SB, b, pick[b])
                                            /\ ((PickedRow(b) - 1) % SB) + 1 = Owner(SB, PickedRow(b))
=============================================================================
