---------------------------- MODULE MC_Layout_apa ----------------------------
(* C12, UNBOUNDED -- the replication layout of Layout.tla for ALL batch sizes B >= 1, ALL nestings (any depth) and ALL
   replication factors >= 1, checked with Apalache (SMT, mathematical integers: B, the factors and the row indices are
   unconstrained integer variables; nothing is enumerated).  TLC (c12.py) covers B <= 4, depth <= 3, factors <= 3.

   Method.  A sequence of symbolic length cannot be a value of a symbolic model checker, so machine L of Layout.tla is
   abstracted POINTWISE: instead of the whole tensor x the state keeps ONE arbitrary row index i and the content v of that
   row.  "For all rows P(row)" is inductive when for every row i' of the NEW tensor there is a row i of the OLD tensor
   with  P(i) /\ step => P'(i').  The step of the abstract machine therefore lets the environment pick ANY new row i'
   whose source row (BSrc / USrc of LayoutIdx.tla) is the row the pre-state talks about; since the pre-state of an
   inductive check (--init=IndInv..) is ANY state satisfying the invariant, every (old row, new row) pair is covered.
   That every new row HAS a source row in range is lemma L_BSrcRange / L_UBij.  The index maps are those of LayoutIdx.tla,
   which MC_Layout_eq.tla (TLC) equates with BatchifySingle / UnbatchifySingle / PickedRow of Layout.tla.

   Non-linear arithmetic.  x % (B*q) with symbolic B, q is beyond what Z3 decides unaided (the direct formulation runs
   for > 5 min).  The invariants therefore carry the QUOTIENTS as ghost variables (c, d: "i - 1 = c * B + (v - 1)"), updated
   by the step with the obvious witness; the conclusions (stated with % as in Layout.tla) are separate one-state checks.

   Checks (harness/props/unbounded.py; every one is `apalache-mc check --length=0|1`):
     machine LB (batchify, any depth)   InitB => IndInvB ; IndInvB /\ StepB => IndInvB' ; IndInvB => ConclB   (RowOwner)
     machine LU (unbatchify, any depth) InitU => IndInvU ; IndInvU /\ StepU => IndInvU' ; IndInvU => ConclU
                                                                       (RowsStayOwned at every stage, RoundTrip at the end)
     lemmas (Free => L_..)              L_OwnerRange L_OwnerOfCopy L_BSrcRange L_Stride L_RoundTrip1 L_UBij L_Picked
                                        L_OwnedIsRollout                                                           *)
EXTENDS Integers, LayoutIdx

VARIABLES
  \* @type: Int;
  B,      \* batch size
  \* @type: Int;
  q,      \* LB: product of the factors applied so far (Len(x) = B * q);  LU: product of the factors still to split off
  \* @type: Int;
  i,      \* an arbitrary row index of the current tensor (1..B*q)
  \* @type: Int;
  t,      \* LU: the id of an arbitrary leaf below row i (ids of Layout.tla)
  \* @type: Int;
  v,      \* the content (instance number) of that row / leaf (x of Layout.tla)
  \* @type: Int;
  c,      \* ghost quotients: see IndInvB / IndInvU
  \* @type: Int;
  d,
  \* @type: Int;
  u,
  \* @type: Int;
  r,      \* free variables of the lemmas: factor r, stride/second factor s, copy j, row b
  \* @type: Int;
  s,
  \* @type: Int;
  j,
  \* @type: Int;
  b
\* @type: <<Int, Int, Int, Int>>;
aux == <<r, s, j, b>>

(* ------------------------------------------------ machine LB: batchify ------------------------------------------------ *)
\* Layout.InitL: x = [b \in 1..B |-> b]
InitB == /\ B \in Int /\ B >= 1 /\ q = 1 /\ i \in Int /\ i >= 1 /\ i <= B /\ v = i /\ c = 0
         /\ t = 0 /\ d = 0 /\ u = 0 /\ r = 0 /\ s = 0 /\ j = 0 /\ b = 0
\* Layout.StepB with any factor rr >= 1: x' = BatchifySingle(x, rr); row i2 of x' reads row BSrc(Len(x), i2) of x
StepB == \E rr \in Int, i2 \in Int :
            /\ rr >= 1 /\ i2 >= 1 /\ i2 <= B * q * rr
            /\ BSrc(B * q, i2) = i
            /\ q' = q * rr /\ i' = i2 /\ v' = v /\ B' = B
            /\ c' = q * ((i2 - 1) \div (B * q)) + c
            /\ UNCHANGED <<t, d, u, aux>>
IndInvB == /\ B \in Int /\ q \in Int /\ i \in Int /\ v \in Int /\ c \in Int
           /\ t = 0 /\ d = 0 /\ u = 0 /\ r = 0 /\ s = 0 /\ j = 0 /\ b = 0
           /\ B >= 1 /\ q >= 1 /\ i >= 1 /\ i <= B * q /\ v >= 1 /\ v <= B /\ c >= 0
           /\ i - 1 = c * B + (v - 1)
\* RowOwner of Layout.tla (Len(x) = B * Prod(shape) is q = Prod(shape) by construction)
ConclB == IndInvB => v = Owner(B, i)

(* ----------------------------------------------- machine LU: unbatchify ----------------------------------------------- *)
\* the state after Layout.Turn: ids = [i |-> i], x as established by LB (x[i] = Owner(B, i)), Len = B * q for ANY q >= 1
InitU == /\ B \in Int /\ B >= 1 /\ q \in Int /\ q >= 1 /\ i \in Int /\ i >= 1 /\ i <= B * q
         /\ t = i /\ v = Owner(B, i)
         /\ c = (i - 1) \div B /\ d = (i - 1) \div B /\ u = (i - 1) % B
         /\ r = 0 /\ s = 0 /\ j = 0 /\ b = 0
\* Layout.StepU with any factor rr that divides q (q = rr * q2: EqShape of MC_Layout_eq.tla): the leaves below row bb of
\* ids' are the leaves below the rows USrc(B*q, rr, bb, jj) = (jj - 1) * (B * q2) + bb of ids (L_Stride), jj \in 1..rr
StepU == \E rr \in Int, q2 \in Int, bb \in Int, jj \in Int :
            /\ rr >= 1 /\ q2 >= 1 /\ q = rr * q2 /\ bb >= 1 /\ bb <= B * q2 /\ jj >= 1 /\ jj <= rr
            /\ (jj - 1) * (B * q2) + bb = i
            /\ q' = q2 /\ i' = bb /\ t' = t /\ v' = v /\ B' = B
            /\ c' = c /\ u' = u /\ d' = d - (jj - 1) * q2
            /\ UNCHANGED aux
IndInvU == /\ B \in Int /\ q \in Int /\ i \in Int /\ t \in Int /\ v \in Int /\ c \in Int /\ d \in Int /\ u \in Int
           /\ r = 0 /\ s = 0 /\ j = 0 /\ b = 0
           /\ B >= 1 /\ q >= 1 /\ i >= 1 /\ i <= B * q /\ t >= 1 /\ c >= 0 /\ d >= 0 /\ u >= 0 /\ u < B
           /\ t - 1 = c * B + u /\ i - 1 = d * B + u /\ v = u + 1
\* RowsStayOwned (every stage): a leaf below row i is owned by the instance that owns row i;
\* RoundTrip / RowsStayOwned at the end (q = 1, Len = B): every leaf below out[i] is (a copy of) instance i
ConclU == IndInvU => /\ Owner(B, t) = Owner(B, i)
                     /\ v = Owner(B, t)
                     /\ q = 1 => (Owner(B, t) = i /\ v = i)

(* ------------------------------------------------------- lemmas ------------------------------------------------------- *)
Free == /\ B \in Int /\ q \in Int /\ i \in Int /\ t \in Int /\ v \in Int /\ c \in Int /\ d \in Int /\ u \in Int
        /\ r \in Int /\ s \in Int /\ j \in Int /\ b \in Int
Stutter == UNCHANGED <<B, q, i, t, v, c, d, u, r, s, j, b>>
\* an owner is an instance
L_OwnerRange == (B >= 1 /\ i >= 1) => (Owner(B, i) >= 1 /\ Owner(B, i) <= B)
\* copy j of instance b sits at row (j-1)*B + b and is owned by b   ("owner(replica) = replica mod B")
L_OwnerOfCopy == (B >= 1 /\ b >= 1 /\ b <= B /\ j >= 1) => Owner(B, (j - 1) * B + b) = b
\* every row of BatchifySingle(seq, r) reads an existing row of seq   (s = Len(seq))
L_BSrcRange == (s >= 1 /\ i >= 1) => (BSrc(s, i) >= 1 /\ BSrc(s, i) <= s)
\* the stride of UnbatchifySingle on a tensor of B * (r * s) rows split by r is B * s
L_Stride == (B >= 1 /\ r >= 1 /\ s >= 1) => USrc(B * (r * s), r, b, j) = (j - 1) * (B * s) + b
\* one level: unbatchify(batchify(x, r), r)[b][j] = x[b]     (x of ANY length s, any r)
L_RoundTrip1 == (s >= 1 /\ r >= 1 /\ b >= 1 /\ b <= s /\ j >= 1 /\ j <= r) =>
                   /\ USrc(s * r, r, b, j) >= 1 /\ USrc(s * r, r, b, j) <= s * r
                   /\ BSrc(s, USrc(s * r, r, b, j)) = b
\* UnbatchifySingle neither loses nor duplicates rows: (b, j) |-> (j-1)*s + b is a bijection 1..s x 1..r -> 1..s*r
\* (i: any row; t, v: a second (b, j) pair)
L_UBij == (s >= 1 /\ r >= 1) =>
             /\ (i >= 1 /\ i <= s * r) => LET bb == ((i - 1) % s) + 1  jj == ((i - 1) \div s) + 1 IN
                                            bb >= 1 /\ bb <= s /\ jj >= 1 /\ jj <= r /\ (jj - 1) * s + bb = i
             /\ (b >= 1 /\ b <= s /\ t >= 1 /\ t <= s /\ (j - 1) * s + b = (v - 1) * s + t) => (b = t /\ j = v)
\* _select_best / unbatchify_and_gather: the picked row of instance b is a row of the B*K expansion owned by b  (r = K, j = pick[b])
L_Picked == (B >= 1 /\ r >= 1 /\ b >= 1 /\ b <= B /\ j >= 1 /\ j <= r) =>
               /\ Picked(B, b, j) >= 1 /\ Picked(B, b, j) <= B * r
               /\ Owner(B, Picked(B, b, j)) = b
\* ... and every row owned by b IS one of its r rollouts: row i is rollout (i-1)\div B + 1 of instance Owner(B, i).
\* With this, Choose's guard (\A j \in 1..SK : rew[PickedRow(b)] >= rew[(j-1)*SB + b]) instantiated at j = (i-1)\div SB + 1
\* is the second conjunct of BestIsOwnMax (pure logic: rew is a function).
L_OwnedIsRollout == (B >= 1 /\ r >= 1 /\ i >= 1 /\ i <= B * r) =>
                       LET jj == ((i - 1) \div B) + 1 IN jj >= 1 /\ jj <= r /\ Picked(B, Owner(B, i), jj) = i
Lemmas == L_OwnerRange /\ L_OwnerOfCopy /\ L_BSrcRange /\ L_Stride /\ L_RoundTrip1 /\ L_UBij /\ L_Picked /\ L_OwnedIsRollout
=============================================================================
