----------------------------- MODULE ReptileTrace -----------------------------
(* Reptile.tla on executions of the REAL rl4co/utils/meta_trainer.py :: ReptileCallback -- attached to a real POMO /
   REINFORCE module and driven either by the harness (hooks called in Lightning's order with a minimal trainer object) or
   by a real RL4COTrainer.fit observed through two extra callbacks (one before, one after the Reptile callback).
   One ndjson record per (run, probed coordinate):
       maxEp, B, S, tol, pol0,                 scalars are logged as integers in units of 1 / S; tol in the same units
       ev = sequence of events
          [a |-> "fit" | "start" | "train" | "end" | "regen",
           tasks (fit, end: the sizes random.sample returned during the hook, <<>> when it was not consulted)
           v     (train: the value of the coordinate after the epoch's optimiser steps)
           obs |-> the abstract state PROJECTED from the real objects after the hook:
                   ep, alpha <<n, d>>, pol, meta, hasMeta, sel, cur, genN, genCap, dataN, optNew, optFresh, lrDec]
   The specification applies Reptile's own actions with the inputs of the event and compares every component of the
   projected state with its variables.  Failing clauses print <<"FAIL", tid, clause, l>>; nothing halts TLC.            *)
EXTENDS Reptile, Json, IOUtils

Traces == ndJsonDeserialize(IOEnv.TRACE_FILE)
VARIABLES tid, l
tvars == <<tid, l>>
Tr == Traces[tid]
Ev(k) == Tr.ev[k]

TInit == /\ tid \in 1..Len(Traces) /\ l = 0
         /\ pc = "init" /\ maxEp = Tr.maxEp /\ B = Tr.B /\ ep = 0
         /\ alpha = Alpha0 /\ pol = RNorm(<<Tr.pol0, Tr.S>>) /\ meta = Zero /\ hasMeta = FALSE /\ tms = <<>>
         /\ sel = <<>> /\ cur = 0 /\ genN = Size0 /\ genCap = Cap0 /\ dataN = Size0
         /\ optNew = 0 /\ optFresh = TRUE /\ lrDec = 0
         /\ upd = <<>> /\ trained = <<>> /\ smp = <<>> /\ hist = <<>>
TNext == /\ l < Len(Tr.ev) /\ l' = l + 1 /\ UNCHANGED tid
         /\ LET e == Ev(l + 1) IN
              CASE e.a = "fit"   -> FitStart(e.tasks)
                [] e.a = "start" -> EpochStart
                [] e.a = "train" -> TrainTo(RNorm(<<e.v, Tr.S>>), <<"train", e.v>>)
                [] e.a = "end"   -> EpochEnd(e.tasks)
                [] e.a = "regen" -> ModuleEnd
TSpec == TInit /\ [][TNext]_<<tvars, vars>>

Fail(c) == PrintT(<<"FAIL", tid, c, l>>)
Cur == Ev(l)
O == Cur.obs
On == l > 0
\* | x / S - r | <= tol / S
Near(x, r) == LET L == LCM(Tr.S, r[2]) IN RAbs(x * (L \div Tr.S) - r[1] * (L \div r[2])) <= Tr.tol * (L \div Tr.S)
WasBoundary == Cur.a = "end" /\ upd # <<>> /\ Len(tms) = B

M_Alpha  == (On /\ RNorm(<<O.alpha[1], O.alpha[2]>>) # alpha) => Fail("alpha-schedule")
M_Step   == (On /\ WasBoundary /\ ~Near(O.pol, pol)) => Fail("meta-update-is-reptile-step")
M_Reset  == (On /\ Cur.a = "start" /\ ~Near(O.pol, pol)) => Fail("policy-starts-from-meta")
M_Keep   == (On /\ Cur.a \notin {"start", "train"} /\ ~WasBoundary /\ ~Near(O.pol, pol)) => Fail("policy-changed-outside-update")
M_Meta   == (On /\ (O.hasMeta # hasMeta \/ (hasMeta /\ ~Near(O.meta, meta)))) => Fail("meta-model-state")
M_Inner  == (On /\ O.nTms # Len(tms)) => Fail("inner-loop-length")
M_Task   == (On /\ (O.sel # sel \/ O.cur # cur)) => Fail("task-schedule")
M_Sample == (On /\ Cur.a \in {"fit", "end"} /\ Cur.tasks # <<>> /\ Cur.tasks \notin Batches) => Fail("task-drawn-from-task-set")
M_Env    == (On /\ (O.genN # genN \/ O.dataN # dataN \/ (HasCap /\ O.genCap # genCap))) => Fail("env-matches-task")
M_Opt    == (On /\ (O.optNew # optNew \/ O.optFresh # optFresh \/ O.lrDec # lrDec)) => Fail("optimizer-reset-per-epoch")
(* ---- bookkeeping of the harness itself (never a verdict) ---- *)
M_Drift  == (On /\ (O.ep # ep \/ (Cur.a = "train" /\ ~Near(O.pol, pol)))) => PrintT(<<"DRIFT", tid, l>>)
End == (l = Len(Tr.ev)) => PrintT(<<"END", tid>>)
=============================================================================
