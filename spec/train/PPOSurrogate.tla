---------------------------- MODULE PPOSurrogate ----------------------------
(* C16 -- the PPO clipped surrogate of rl4co.models.rl.ppo.PPO.shared_step
   (one inner iteration over the whole batch), exact arithmetic.
   Row r: reward R[r], value prediction X[r] (critic), probability ratio
   rho[r] = 2^d[r] (new log-likelihood minus old = d * ln 2, d = D[r] - DOff),
   entropy E[r].      adv = R - X  (X detached)
     surrogate = -(1/n) sum_r min(rho*adv, clamp(rho, 1-c, 1+c)*adv)
     value     = (1/n) sum_r huber(X - R)         (delta = 1; integer differences)
     loss      = surrogate + vf * value - ent * (1/n) sum_r E[r]
   Gradients: d loss/d (log-likelihood of row r) = -(1/n) * rho*adv if the unclipped branch is the minimum, else 0;
              d loss/d X[r] = vf * sign(X-R) / n (value loss only);   d loss/d E[r] = -ent / n.     *)
EXTENDS Rat, Naturals, FiniteSets, TLC
CONSTANTS NRows, RVals, DVals, DOff, XVals, EVals, ClipN, ClipD, VfN, VfD, EntN, EntD
VARIABLES R, D, X, E
vars == <<R, D, X, E>>
Rows == 1..NRows
Clip == <<ClipN, ClipD>>   Vf == <<VfN, VfD>>   Ent == <<EntN, EntD>>
Init == R \in [Rows -> RVals] /\ D \in [Rows -> DVals] /\ X \in [Rows -> XVals] /\ E \in [Rows -> EVals]
Next == UNCHANGED vars
Spec == Init /\ [][Next]_vars

Pow2(d) == IF d >= 0 THEN <<2^d, 1>> ELSE <<1, 2^(0 - d)>>
Rho(r) == Pow2(D[r] - DOff)
Lo == RSub(RInt(1), Clip)   Hi == RAdd(RInt(1), Clip)
Clamp(q) == IF RLeq(q, Lo) THEN Lo ELSE IF RLeq(Hi, q) THEN Hi ELSE q
Adv(r) == RInt(R[r] - X[r])
Unclipped(r) == RMul(Rho(r), Adv(r))
Clipped(r) == RMul(Clamp(Rho(r)), Adv(r))
Active(r) == RLeq(Unclipped(r), Clipped(r))          \* the unclipped branch is the minimum
Term(r) == IF Active(r) THEN Unclipped(r) ELSE Clipped(r)
AbsI(z) == IF z < 0 THEN 0 - z ELSE z
Huber(z) == IF z = 0 THEN <<0, 1>> ELSE RSub(RInt(AbsI(z)), <<1, 2>>)
Sign(z) == IF z > 0 THEN 1 ELSE IF z < 0 THEN 0 - 1 ELSE 0
N == RInt(NRows)
Surrogate == RSub(<<0, 1>>, RDiv(RSumSeq([r \in Rows |-> Term(r)]), N))
Value == RDiv(RSumSeq([r \in Rows |-> Huber(X[r] - R[r])]), N)
Entropy == RDiv(RSumSeq([r \in Rows |-> RInt(E[r])]), N)
Loss == RSub(RAdd(Surrogate, RMul(Vf, Value)), RMul(Ent, Entropy))
GradL(r) == IF Active(r) THEN RSub(<<0, 1>>, RDiv(Unclipped(r), N)) ELSE <<0, 1>>
GradX(r) == RDiv(RMul(Vf, RInt(Sign(X[r] - R[r]))), N)
GradE(r) == RSub(<<0, 1>>, RDiv(Ent, N))
\* the objective never rewards moving the ratio beyond the clip range in the advantage's direction
ClipBound == \A r \in Rows : /\ (R[r] - X[r] >= 0 => RLeq(Term(r), RMul(Hi, Adv(r))))
                              /\ (R[r] - X[r] <= 0 => RLeq(Term(r), RMul(Lo, Adv(r))))
Emit == PrintT(<<"P", R, D, X, E, Loss, [r \in Rows |-> GradL(r)], [r \in Rows |-> GradX(r)], [r \in Rows |-> GradE(r)]>>)
=============================================================================
