------------------------------ MODULE Reinforce ------------------------------
(* C16 -- one REINFORCE training step (rl4co REINFORCE.calculate_loss, POMO
   shared baseline, A2C critic baseline) as exact arithmetic on small integers.
   A step takes rewards R[r] and log-likelihoods L[r] = -Lneg[r] of the n rows of a
   batch (plus, depending on the baseline, per-row values X[r]) and produces
       adv[r]  = R[r] - b[r]                       (b carries no gradient)
       loss    = -(1/n) sum_r adv[r] * L[r]  +  bl_loss
       dloss/dL[r] = -adv[r] / n      dloss/dR = 0      dloss/dX[r] = d bl_loss / dX[r]
   kind "no"      b = 0
        "exp"     b = v' , v' = beta v + (1-beta) mean(R)   (v' = mean(R) on the first step): stateful
        "extra"   b[r] = X[r]   (greedy-rollout baseline values travelling with the batch)
        "critic"  b[r] = X[r]   (value prediction), bl_loss = mean((X - R)^2), dloss/dX[r] = 2 (X[r]-R[r]) / n
        "warmup"  b = alpha * v2' + (1-alpha) * v'  with v' the warm-up EMA (beta) and v2' the inner baseline's EMA (beta2),
                  both advanced on every step of the mixed regime 0 < alpha < 1 (WarmupBaseline.eval): stateful
        "shared"  b[r] = mean of R over the rollouts of r's instance; rows are laid out
                  rollout-major: row r belongs to instance ((r-1) mod B) + 1   (see Layout.tla)
   The history variable `hist` lists the (R, Lneg, X) triples of all steps so far.   *)
EXTENDS Rat, Naturals, FiniteSets, TLC

CONSTANTS Kinds, NRows, GroupB, RVals, LVals, XVals, MaxSteps, BetaN, BetaD,
          Beta2N, Beta2D, AlphaN, AlphaD     \* kind "warmup": inner baseline EMA(Beta2), weight alpha = AlphaN / AlphaD

VARIABLES kind, hist, v, v2, adv, loss, gX
vars == <<kind, hist, v, v2, adv, loss, gX>>
Rows == 1..NRows
Beta == <<BetaN, BetaD>>
Beta2 == <<Beta2N, Beta2D>>
Alpha == <<AlphaN, AlphaD>>
Group(r) == ((r - 1) % GroupB) + 1
RMeanOver(f, S) == RDiv(RSumSeq([i \in 1..Cardinality(S) |->
                        RInt(f[CHOOSE x \in S : Cardinality({y \in S : y < x}) = i - 1])]), RInt(Cardinality(S)))

Baseline(k, vnew, v2new, R, X) ==
  [r \in Rows |-> CASE k = "no" -> <<0, 1>>
                    [] k = "exp" -> vnew
                    [] k = "warmup" -> RAdd(RMul(Alpha, v2new), RMul(RSub(RInt(1), Alpha), vnew))
                    [] k = "extra" -> RInt(X[r])
                    [] k = "critic" -> RInt(X[r])
                    [] k = "shared" -> RMeanOver(R, {q \in Rows : Group(q) = Group(r)})]

Init == /\ kind \in Kinds /\ hist = <<>> /\ v = <<>> /\ v2 = <<>> /\ adv = <<>> /\ loss = <<0, 1>> /\ gX = <<>>
Ema(beta, old, R) == IF old = <<>> THEN RMeanOver(R, Rows)
                     ELSE RAdd(RMul(beta, old), RMul(RSub(RInt(1), beta), RMeanOver(R, Rows)))
TrainStep(R, Lneg, X) ==
  LET vnew == IF kind \in {"exp", "warmup"} THEN Ema(Beta, v, R) ELSE v
      v2new == IF kind = "warmup" THEN Ema(Beta2, v2, R) ELSE v2
      b == Baseline(kind, vnew, v2new, R, X)
      a == [r \in Rows |-> RSub(RInt(R[r]), b[r])]
      \* -(1/n) sum adv * L  with L = -Lneg
      reinforce == RDiv(RSumSeq([r \in Rows |-> RMul(a[r], RInt(Lneg[r]))]), RInt(NRows))
      blloss == IF kind = "critic"
                THEN RDiv(RSumSeq([r \in Rows |-> RInt((X[r] - R[r]) * (X[r] - R[r]))]), RInt(NRows))
                ELSE <<0, 1>>
  IN /\ v' = vnew /\ v2' = v2new /\ adv' = a
     /\ loss' = RAdd(reinforce, blloss)
     /\ gX' = IF kind = "critic" THEN [r \in Rows |-> RNorm(<<2 * (X[r] - R[r]), NRows>>)] ELSE <<>>
     /\ hist' = Append(hist, <<R, Lneg, X>>)
     /\ UNCHANGED kind
Next == Len(hist) < MaxSteps /\
        \E R \in [Rows -> RVals] : \E Lneg \in [Rows -> LVals] :
        \E X \in (IF kind \in {"extra", "critic"} THEN [Rows -> XVals] ELSE {[r \in Rows |-> 0]}) :
           TrainStep(R, Lneg, X)
Spec == Init /\ [][Next]_vars

\* gradient the policy receives through the log-likelihood of row r
GradL(r) == RDiv(RSub(<<0, 1>>, adv[r]), RInt(NRows))
\* shared baseline: advantages average to zero within each instance
SharedZeroMean == (kind = "shared" /\ hist # <<>>) =>
   \A g \in 1..GroupB : REq(RSumSeq([i \in 1..(NRows \div GroupB) |-> adv[(i - 1) * GroupB + g]]), <<0, 1>>)
\* the loss is the mean over ROWS of adv[r] * L[r] (n terms, no n x n broadcast): when all rows are equal
\* the reinforce term equals the single-row term
NoBroadcast == (hist # <<>> /\ kind \in {"no", "extra"} /\
                 \A r \in Rows : hist[Len(hist)][1][r] = hist[Len(hist)][1][1] /\ hist[Len(hist)][2][r] = hist[Len(hist)][2][1]
                                 /\ hist[Len(hist)][3][r] = hist[Len(hist)][3][1])
               => REq(loss, RMul(adv[1], RInt(hist[Len(hist)][2][1])))
\* a constant shift of all rewards leaves exp/shared advantages' sum-to-zero structure: mean baseline (beta = 0) gives zero-mean advantages
MeanZero == (kind = "exp" /\ BetaN = 0 /\ hist # <<>>) => REq(RSumSeq([r \in Rows |-> adv[r]]), <<0, 1>>)
Emit == hist # <<>> => PrintT(<<"G", kind, hist, adv, loss, [r \in Rows |-> GradL(r)], gX>>)
=============================================================================
