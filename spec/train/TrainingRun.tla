------------------------------ MODULE TrainingRun ------------------------------
(* C17 / C20 at the level of a whole training run -- the EPOCH PROTOCOL of
   rl4co's REINFORCE with the default "rollout" baseline, i.e.
   WarmupBaseline(RolloutBaseline), as ONE state machine:

     Setup        RL4COLitModule.setup + REINFORCE.post_setup_hook
                    train_dataset = wrap_dataset(env.dataset(train))      (alpha = 0: not wrapped)
                    baseline.setup -> RolloutBaseline._update_policy      (copy of the policy, evaluation set, bl_vals, mean)
     TrainEpoch   one pass of the trainer over train_dataloader(): batches of the (wrapped) training set;
                    calculate_loss uses batch["extra"] when present, else baseline.eval (alpha = 0: exponential baseline);
                    the optimiser changes the training policy
     EpochEnd     REINFORCE.on_train_epoch_end, first half: baseline.epoch_callback(policy, epoch = current_epoch)
                    RolloutBaseline.epoch_callback: candidate (= training policy) against the baseline on the evaluation set;
                      replaced iff  candidate_mean - mean > 0  AND the one-sided paired t-test is significant
                      (the t-test is an INPUT `sig` of the action); a replacement copies the policy, draws a NEW evaluation
                      set and recomputes bl_vals / mean with the new copy
                    WarmupBaseline.epoch_callback: alpha = (epoch + 1) / n_epochs while epoch < n_epochs
     Regen        second half (RL4COLitModule.on_train_epoch_end): unless this was the last epoch a new training set is
                    generated and wrapped: alpha > 0 -> `extra`[i] = reward of the CURRENT baseline policy on new instance i

   Abstraction.  A policy "version" is an integer value v (the stub policy's parameter); the reward of the policy with value
   v on instance i of dataset version d is  R(d, i, v) = 100 d + 10 i + v  -- injective in (i, v) for the scopes used, so that
   every reward names its instance and the policy version that produced it.  Training-set versions (dsVer) and evaluation-set
   versions (evVer) count generations of the respective dataset.  blVer counts copies taken of the policy (baseline versions).

   The variables are the attributes the real objects keep; wrapInfo, chal and hist are history variables from which the
   invariants recompute the stated clauses.                                                                              *)
EXTENDS Rat, Naturals, FiniteSets, TLC          \* Rat: Integers, Sequences, exact rationals <<num, den>>

CONSTANTS MaxEpochs,      \* runs of 1..MaxEpochs epochs           (trainer.max_epochs)
          MinWarm, MaxWarm, \* warm-up lengths MinWarm..MaxWarm     (WarmupBaseline.n_epochs; 0 = the rollout baseline
                          \*                                       on its own, registry name "rollout_only": alpha is 1 throughout)
          PolVals, Pol0,  \* values the training policy may have after an epoch / at set-up
          NTrain, NEval,  \* sizes of the training set / of the baseline's evaluation set
          B,              \* training batch size
          Shuffle         \* BOOLEAN: shuffle_train_dataloader

VARIABLES pc,        \* "init" | "train" | "end" | "regen" | "done"
          maxEp, nWarm,
          ep,        \* trainer.current_epoch
          alpha,     \* WarmupBaseline.alpha  (rational)
          pol,       \* value of the training policy
          blPol,     \* value of RolloutBaseline.policy (a COPY: not changed by training)
          blVer,     \* how many copies have been taken so far (baseline policy version id)
          evVer,     \* version of RolloutBaseline.dataset (evaluation set)
          blVals,    \* RolloutBaseline.bl_vals
          blSum,     \* RolloutBaseline.mean * NEval
          dsVer,     \* version of module.train_dataset
          extras,    \* its `extra` column (<<>> = dataset not wrapped)
          batches,   \* the batches the last TrainEpoch delivered
          chal,      \* last challenge <<better, significant, updated>>  (history)
          wrapInfo,  \* <<dsVer, blVer, blPol, alpha>> at the last wrap_dataset call  (history)
          hist       \* the actions so far with their inputs  (history)
vars == <<pc, maxEp, nWarm, ep, alpha, pol, blPol, blVer, evVer, blVals, blSum, dsVer, extras, batches, chal, wrapInfo, hist>>

R(d, i, v) == 100 * d + 10 * i + v
\* RolloutBaseline.rollout(policy with value v, dataset version d of n instances): one reward per instance, dataset order
Rollout(d, n, v) == [i \in 1..n |-> R(d, i, v)]
RECURSIVE Sum(_)
Sum(s) == IF s = <<>> THEN 0 ELSE Head(s) + Sum(Tail(s))
MinN(x, y) == IF x <= y THEN x ELSE y
Ident(n) == [i \in 1..n |-> i]
Perms(n) == {p \in [1..n -> 1..n] : \A i, j \in 1..n : i # j => p[i] # p[j]}
Orders == IF Shuffle THEN Perms(NTrain) ELSE {Ident(NTrain)}
Zero == <<0, 1>>
Positive(a) == a[1] > 0

\* the data loader over the current training set visiting the items in `order`: consecutive batches of size B (last one
\* possibly partial); every item arrives with ITS extra (if the set is wrapped); REINFORCE.calculate_loss then takes the
\* extra as baseline value, and otherwise asks the warm-up baseline, which at alpha = 0 is the exponential one
RECURSIVE Chunks(_, _)
Chunks(order, from) ==
  IF from > Len(order) THEN <<>>
  ELSE LET k   == MinN(B, Len(order) - from + 1)
           ids == [j \in 1..k |-> order[from + j - 1]]
       IN <<[ds    |-> dsVer,
             idx   |-> ids,
             extra |-> IF extras = <<>> THEN <<>>
                       ELSE [j \in 1..k |-> IF ids[j] \in DOMAIN extras THEN extras[ids[j]] ELSE -1],
             used  |-> IF extras # <<>> THEN "extra"
                       ELSE IF alpha = Zero THEN "exp" ELSE "mix"]>>
          \o Chunks(order, from + B)

Init == /\ pc = "init" /\ maxEp \in 1..MaxEpochs /\ nWarm \in MinWarm..MaxWarm
        /\ ep = 0 /\ alpha = (IF nWarm = 0 THEN <<1, 1>> ELSE Zero) /\ pol = 0 /\ blPol = 0 /\ blVer = 0 /\ evVer = 0 /\ blVals = <<>> /\ blSum = 0
        /\ dsVer = 0 /\ extras = <<>> /\ batches = <<>> /\ chal = <<>> /\ wrapInfo = <<>> /\ hist = <<>>

\* the value a wrap_dataset call attaches: WarmupBaseline.wrap_dataset delegates to the rollout baseline iff alpha > 0
WrappedBy(d, v) == IF Positive(alpha) THEN Rollout(d, NTrain, v) ELSE <<>>
Wrapped(d) == WrappedBy(d, blPol)

SetupWith(p0) ==
  /\ pc = "init"
  /\ pol' = p0
  /\ blPol' = p0 /\ blVer' = 1 /\ evVer' = 1                  \* baseline.setup -> _update_policy
  /\ blVals' = Rollout(1, NEval, p0) /\ blSum' = Sum(Rollout(1, NEval, p0))
  \* the first training set: not wrapped while warming up (alpha = 0); with the rollout baseline on its own (nWarm = 0)
  \* its extras are those of the first baseline version  [the real setup() wraps BEFORE baseline.setup: see the harness]
  /\ dsVer' = 1 /\ extras' = WrappedBy(1, p0)
  /\ wrapInfo' = <<1, 1, p0, alpha>>
  /\ pc' = "train" /\ hist' = Append(hist, <<"setup", p0>>)
  /\ UNCHANGED <<maxEp, nWarm, ep, alpha, batches, chal>>

TrainEpoch(p, order) ==
  /\ pc = "train"
  /\ batches' = Chunks(order, 1)
  /\ pol' = p                                                 \* effect of the optimiser steps
  /\ pc' = "end" /\ hist' = Append(hist, <<"train", p>>)
  /\ UNCHANGED <<maxEp, nWarm, ep, alpha, blPol, blVer, evVer, blVals, blSum, dsVer, extras, chal, wrapInfo>>

\* candidate_mean - self.mean > 0   (both means over the same NEval instances: compare the sums)
Better == Sum(Rollout(evVer, NEval, pol)) > blSum

EpochEnd(sig) ==
  /\ pc = "end"
  /\ LET upd == Better /\ sig IN
       /\ chal' = <<Better, sig, upd>>
       /\ IF upd THEN /\ blPol' = pol /\ blVer' = blVer + 1 /\ evVer' = evVer + 1
                      /\ blVals' = Rollout(evVer + 1, NEval, pol)
                      /\ blSum' = Sum(Rollout(evVer + 1, NEval, pol))
                 ELSE UNCHANGED <<blPol, blVer, evVer, blVals, blSum>>
  /\ alpha' = IF ep < nWarm THEN RNorm(<<ep + 1, nWarm>>) ELSE alpha
  /\ pc' = "regen" /\ hist' = Append(hist, <<"end", sig>>)
  /\ UNCHANGED <<maxEp, nWarm, ep, pol, dsVer, extras, batches, wrapInfo>>

Regen ==
  /\ pc = "regen"
  /\ IF ep < maxEp - 1
       THEN /\ dsVer' = dsVer + 1 /\ extras' = Wrapped(dsVer + 1)
            /\ wrapInfo' = <<dsVer + 1, blVer, blPol, alpha>>
       ELSE UNCHANGED <<dsVer, extras, wrapInfo>>              \* last epoch: the set would never be used
  /\ ep' = ep + 1                                              \* (the trainer advances current_epoch)
  /\ pc' = IF ep + 1 = maxEp THEN "done" ELSE "train"
  /\ hist' = Append(hist, <<"regen">>)
  /\ UNCHANGED <<maxEp, nWarm, alpha, pol, blPol, blVer, evVer, blVals, blSum, batches, chal>>

Next == \/ SetupWith(Pol0)
        \/ \E p \in PolVals, o \in Orders : TrainEpoch(p, o)
        \/ \E s \in (IF Better THEN BOOLEAN ELSE {FALSE}) : EpochEnd(s)     \* the test is only consulted when better
        \/ Regen
Spec == Init /\ [][Next]_vars

(* ------------------------------ the clauses ------------------------------ *)
\* epoch callbacks executed so far
CB == IF pc = "regen" THEN ep + 1 ELSE ep
\* C20: the weight moves from zero to one over nWarm epochs (as AlphaExact of Stats.tla)
AlphaSchedule == pc # "init" => REq(alpha, IF CB >= nWarm THEN <<1, 1>> ELSE <<CB, nWarm>>)
\* C17: the set is wrapped iff alpha > 0 at wrap time; every extra is the reward, on its OWN instance of the CURRENT
\* training set, of the baseline policy version current at wrap time
ExtraAtWrap == pc # "init" =>
   /\ wrapInfo[1] = dsVer
   /\ (extras = <<>>) <=> ~Positive(wrapInfo[4])
   /\ extras # <<>> => (Len(extras) = NTrain /\ \A i \in 1..NTrain : extras[i] = R(dsVer, i, wrapInfo[3]))
\* C17: ... and while an epoch trains on the set that version is still the current one (the baseline is replaced only at
\* EpochEnd, and the set is re-generated AFTER that)
ExtraFromCurrentBaseline == (pc \in {"train", "end"} /\ extras # <<>>) =>
   (wrapInfo[2] = blVer /\ extras = Rollout(dsVer, NTrain, blPol))
\* the batches of the epoch just trained: own dataset version, each item once, own extras; the loss used the extra
BatchesOwn == pc = "end" =>
   /\ \A k \in DOMAIN batches : batches[k].ds = dsVer
   /\ Sum([k \in DOMAIN batches |-> Len(batches[k].idx)]) = NTrain
   /\ \A k \in DOMAIN batches :
        IF alpha = Zero THEN batches[k].extra = <<>> /\ batches[k].used = "exp"       \* warming up: exponential baseline
        ELSE /\ batches[k].used = "extra"
             /\ \A j \in DOMAIN batches[k].idx : batches[k].extra[j] = R(dsVer, batches[k].idx[j], blPol)
Delivered == UNION {{batches[k].idx[j] : j \in DOMAIN batches[k].idx} : k \in DOMAIN batches}
BatchesExactlyOnce == pc = "end" => Delivered = 1..NTrain
\* C20: bl_vals / mean are the CURRENT baseline policy's rewards on the CURRENT evaluation set
BlValsCurrent == pc # "init" => (blVals = Rollout(evVer, NEval, blPol) /\ blSum = Sum(blVals))
\* every epoch trains on its own training set; the last epoch does not generate another one
DatasetPerEpoch == /\ pc \in {"train", "end", "regen"} => dsVer = ep + 1
                   /\ pc = "done" => dsVer = maxEp
\* one baseline version and one evaluation set per successful challenge
VersionsCount == pc # "init" => evVer = blVer
TypeOK == /\ pc \in {"init", "train", "end", "regen", "done"} /\ ep \in 0..maxEp /\ RLeq(Zero, alpha) /\ RLeq(alpha, <<1, 1>>)
\* action properties
\* C20: the baseline policy version changes only at EpochEnd with candidate better AND significant -- and then it does
UpdateIff == [][pc = "end" => ((blVer' # blVer) <=> (chal'[1] /\ chal'[2]))]_vars
UpdateOnlyAtChallenge == [][(blVer' # blVer \/ blPol' # blPol \/ evVer' # evVer \/ blVals' # blVals \/ blSum' # blSum)
                              => pc \in {"init", "end"}]_vars
\* after an update: the copy is the candidate, the evaluation set is new and bl_vals are the copy's on the new set
FreshAfterUpdate == [][(pc = "end" /\ blVer' # blVer) =>
                         (blPol' = pol /\ evVer' = evVer + 1 /\ blVals' = Rollout(evVer + 1, NEval, pol)
                          /\ blSum' = Sum(blVals'))]_vars
\* the training set changes only in Regen of a non-final epoch (and at set-up)
RegenOnly == [][(dsVer' # dsVer \/ extras' # extras) => (pc = "init" \/ (pc = "regen" /\ ep < maxEp - 1))]_vars

\* every state with its history, for the replay into the real objects
Abs == <<pc, ep, alpha, pol, blPol, blVer, evVer, blVals, blSum, dsVer, extras, batches, chal>>
Emit == PrintT(<<"S", maxEp, nWarm, hist, Abs>>)
=============================================================================
