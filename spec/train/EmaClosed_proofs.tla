-------------------------- MODULE EmaClosed_proofs --------------------------
(* C20, UNBOUNDED -- machine-checked PROOF (TLAPS) that the exponential-moving-average recurrence of
   ExponentialBaseline.eval (Stats.tla: EmaStep) has the closed form Stats.tla states (EmaClosed / EmaExact), for ANY number
   of calls, ANY rational beta = p/d and ANY batch means.  TLC (c20.py) checks EmaExact for <= 4 calls and one beta.

   tlapm has no rationals (and cannot load Rat.tla / Stats.tla: RECURSIVE), so the statement is the integer-scaled one.
   With beta = p / d and v_0 = m_0, v_(t+1) = beta v_t + (1 - beta) m_(t+1)   (t = calls after the first; m = batch means)
   put V_t = d^t v_t.  Then  V_0 = m_0,  V_(t+1) = p V_t + (d - p) d^t m_(t+1),  and the closed form
        v_t = beta^t m_0 + SUM_(j=1..t) (1 - beta) beta^(t-j) m_j
   multiplied by d^t reads
        V_t = p^t m_0 + SUM_(j=1..t) (d - p) p^(t-j) d^(j-1) m_j.
   Powers and the sum are given by their defining recurrences (Dp = d^., Pp = p^., T[t][n] = the first n terms of the sum for
   index t), so the theorem holds for every function satisfying them.  (Batch means that are rationals with a common
   denominator scale the same way: the recurrence and the closed form are linear in m.)                                  *)
EXTENDS Integers, NaturalsInduction, TLAPS

LEMMA Alg1 == ASSUME NEW p \in Int, NEW d \in Int, NEW T \in Int, NEW X \in Int, NEW Y \in Int, NEW Z \in Int
              PROVE  p * T + (d - p) * (p * X) * Y * Z = p * (T + (d - p) * X * Y * Z)
  OBVIOUS

LEMMA Alg2 == ASSUME NEW p \in Int, NEW d \in Int, NEW A \in Int, NEW M \in Int, NEW T \in Int, NEW Y \in Int, NEW Z \in Int
              PROVE  p * (A * M + T) + (d - p) * Y * Z = (p * A) * M + (p * T + (d - p) * 1 * Y * Z)
  OBVIOUS

THEOREM EmaClosedForm ==
  ASSUME NEW p \in Int, NEW d \in Int, NEW m \in [Nat -> Int],
         NEW Dp \in [Nat -> Int], Dp[0] = 1, \A t \in Nat : Dp[t + 1] = d * Dp[t],
         NEW Pp \in [Nat -> Int], Pp[0] = 1, \A t \in Nat : Pp[t + 1] = p * Pp[t],
         NEW V \in [Nat -> Int], V[0] = m[0],
         \A t \in Nat : V[t + 1] = p * V[t] + (d - p) * Dp[t] * m[t + 1],
         NEW T \in [Nat -> [Nat -> Int]], \A t \in Nat : T[t][0] = 0,
         \A t \in Nat : \A n \in Nat : n < t => T[t][n + 1] = T[t][n] + (d - p) * Pp[t - (n + 1)] * Dp[n] * m[n + 1]
  PROVE  \A t \in Nat : V[t] = Pp[t] * m[0] + T[t][t]
\* raising the index multiplies every partial sum by p
<1>1. \A t \in Nat : \A n \in Nat : n <= t => T[t + 1][n] = p * T[t][n]
  <2> TAKE t \in Nat
  <2> DEFINE Q(n) == n <= t => T[t + 1][n] = p * T[t][n]
  <2>1. Q(0)
    <3>1. T[t + 1][0] = 0 /\ T[t][0] = 0 OBVIOUS
    <3> QED BY <3>1
  <2>2. \A n \in Nat : Q(n) => Q(n + 1)
    <3> TAKE n \in Nat
    <3> HAVE Q(n)
    <3> HAVE n + 1 <= t
    <3>1. T[t + 1][n] = p * T[t][n] OBVIOUS
    <3>2. T[t + 1][n + 1] = T[t + 1][n] + (d - p) * Pp[(t + 1) - (n + 1)] * Dp[n] * m[n + 1]
      <4>1. t + 1 \in Nat /\ n < t + 1 OBVIOUS
      <4> QED BY <4>1
    <3>3. T[t][n + 1] = T[t][n] + (d - p) * Pp[t - (n + 1)] * Dp[n] * m[n + 1]
      <4>1. n < t OBVIOUS
      <4> QED BY <4>1
    <3>4. t - (n + 1) \in Nat /\ (t + 1) - (n + 1) = (t - (n + 1)) + 1 OBVIOUS
    <3>5. Pp[(t + 1) - (n + 1)] = p * Pp[t - (n + 1)] BY <3>4
    <3> DEFINE TT == T[t][n]  X == Pp[t - (n + 1)]  Y == Dp[n]  Z == m[n + 1]
    <3>6. TT \in Int /\ X \in Int /\ Y \in Int /\ Z \in Int
      <4>1. T[t] \in [Nat -> Int] OBVIOUS
      <4>2. T[t][n] \in Int BY <4>1
      <4>3. Pp[t - (n + 1)] \in Int BY <3>4
      <4>4. Dp[n] \in Int OBVIOUS
      <4>5. n + 1 \in Nat OBVIOUS
      <4>6. m[n + 1] \in Int BY <4>5
      <4> QED BY <4>2, <4>3, <4>4, <4>6
    <3>7. T[t + 1][n + 1] = p * TT + (d - p) * (p * X) * Y * Z BY <3>1, <3>2, <3>5
    <3>8. T[t][n + 1] = TT + (d - p) * X * Y * Z BY <3>3
    <3> HIDE DEF TT, X, Y, Z
    <3>9. p * TT + (d - p) * (p * X) * Y * Z = p * (TT + (d - p) * X * Y * Z) BY <3>6, Alg1
    <3> QED BY <3>7, <3>8, <3>9
  <2>3. \A n \in Nat : Q(n)
    <3> HIDE DEF Q
    <3> QED BY <2>1, <2>2, NatInduction
  <2> QED BY <2>3
<1> DEFINE P(t) == V[t] = Pp[t] * m[0] + T[t][t]
<1>2. P(0)
  <2>1. T[0][0] = 0 OBVIOUS
  <2>2. m[0] \in Int OBVIOUS
  <2> QED BY <2>1, <2>2
<1>3. \A t \in Nat : P(t) => P(t + 1)
  <2> TAKE t \in Nat
  <2> HAVE P(t)
  <2>1. V[t + 1] = p * (Pp[t] * m[0] + T[t][t]) + (d - p) * Dp[t] * m[t + 1] OBVIOUS
  <2>2. T[t + 1][t] = p * T[t][t] BY <1>1
  <2>3. T[t + 1][t + 1] = T[t + 1][t] + (d - p) * Pp[(t + 1) - (t + 1)] * Dp[t] * m[t + 1]
    <3>1. t + 1 \in Nat /\ t < t + 1 OBVIOUS
    <3> QED BY <3>1
  <2>4. Pp[(t + 1) - (t + 1)] = 1
    <3>1. (t + 1) - (t + 1) = 0 OBVIOUS
    <3> QED BY <3>1
  <2>5. Pp[t + 1] = p * Pp[t] OBVIOUS
  <2> DEFINE A == Pp[t]  M == m[0]  TT == T[t][t]  Y == Dp[t]  Z == m[t + 1]
  <2>6. A \in Int /\ M \in Int /\ TT \in Int /\ Y \in Int /\ Z \in Int
    <3>1. T[t] \in [Nat -> Int] OBVIOUS
    <3>2. T[t][t] \in Int BY <3>1
    <3>3. t + 1 \in Nat OBVIOUS
    <3>4. m[t + 1] \in Int BY <3>3
    <3>5. Pp[t] \in Int /\ m[0] \in Int /\ Dp[t] \in Int OBVIOUS
    <3> QED BY <3>2, <3>4, <3>5
  <2>7. V[t + 1] = p * (A * M + TT) + (d - p) * Y * Z BY <2>1
  <2>8. Pp[t + 1] * m[0] + T[t + 1][t + 1] = (p * A) * M + (p * TT + (d - p) * 1 * Y * Z)
    <3>1. T[t + 1][t + 1] = p * TT + (d - p) * 1 * Y * Z BY <2>2, <2>3, <2>4
    <3>2. Pp[t + 1] * m[0] = (p * A) * M BY <2>5
    <3> QED BY <3>1, <3>2
  <2> HIDE DEF A, M, TT, Y, Z
  <2>9. p * (A * M + TT) + (d - p) * Y * Z = (p * A) * M + (p * TT + (d - p) * 1 * Y * Z) BY <2>6, Alg2
  <2> QED BY <2>7, <2>8, <2>9
<1>4. \A t \in Nat : P(t)
  <2> HIDE DEF P
  <2> QED BY <1>2, <1>3, NatInduction
<1> QED BY <1>4
=============================================================================
