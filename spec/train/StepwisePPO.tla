---------------------------- MODULE StepwisePPO ----------------------------
(* C16 -- ONE update of rl4co.models.rl.ppo.stepwise_ppo.StepwisePPO (the PPO variant of the L2D
   scheduling models), exact arithmetic on small integers.

   What the code does (shared_step + update):  every environment step of every row of a batch is stored
   as ONE transition (state before the step, action, old log-probability "logprobs", the step's reward
   r = env.get_reward(next_state) / reward_scale) in a replay buffer; the buffer keeps the transitions
   of NAcc successive batches (update_timestep).  update() then draws mini-batches of MB transitions
   WITHOUT replacement (incomplete last mini-batch dropped) and for each mini-batch S minimises

        loss(S) = - (1/MB) sum_{i in S} min(rho_i * adv_i, clamp(rho_i, 1-c, 1+c) * adv_i)
                  + vf  * (1/MB) sum_{i in S} (X_i - r_i)^2
                  - ent * (1/MB) sum_{i in S} E_i
        adv_i = r_i - X_i  with X_i detached,     rho_i = exp(new logp_i - old logp_i) = 2^(D_i - DOff)

   i.e. the value target of a transition is its OWN (scaled) step reward: there is no discounting, no
   return accumulation and no GAE in this variant (gamma = 0, one-step advantage r - V(s)).
   Gradients w.r.t. the outputs of policy.evaluate on the mini-batch:
        d loss / d logp_i = -(rho_i * adv_i)/MB  if the unclipped branch is the minimum, else 0
        d loss / d X_i    = 2 vf (X_i - r_i)/MB          (value loss only: the advantage is detached)
        d loss / d E_i    = -ent/MB                      and 0 for every transition outside S.

   Transition (a, t, b) (a-th accumulated batch, step t, row b; 1-based) has the index
   ((a-1)*NSteps + (t-1))*NRows + b  in R, D, X, E.                                                *)
EXTENDS Rat, Naturals, FiniteSets, TLC
CONSTANTS NAcc, NSteps, NRows, MB, Scale, RVals, DVals, DOff, XVals, EVals, ClipN, ClipD, VfN, VfD, EntN, EntD
VARIABLES R, D, X, E, S, ready
vars == <<R, D, X, E, S, ready>>
N == NAcc * NSteps * NRows
Tr == 1..N
Clip == <<ClipN, ClipD>>   Vf == <<VfN, VfD>>   Ent == <<EntN, EntD>>
\* two levels only to spread the cases over TLC's workers: the initial states fix rewards and mini-batch, the single
\* step picks the outputs of policy.evaluate; the cases are the states with ready = TRUE
Init == /\ R \in [Tr -> RVals] /\ S \in {s \in SUBSET Tr : Cardinality(s) = MB}
        /\ D = <<>> /\ X = <<>> /\ E = <<>> /\ ready = FALSE
Next == /\ ~ready /\ ready' = TRUE /\ UNCHANGED <<R, S>>
        /\ D' \in [Tr -> DVals] /\ X' \in [Tr -> XVals] /\ E' \in [Tr -> EVals]
Spec == Init /\ [][Next]_vars

Zero == <<0, 1>>
Neg(q) == RSub(Zero, q)
Sorted(Q) == [k \in 1..Cardinality(Q) |-> CHOOSE x \in Q : Cardinality({y \in Q : y < x}) = k - 1]
SumOver(Q, f(_)) == RSumSeq([k \in 1..Cardinality(Q) |-> f(Sorted(Q)[k])])
Pow2(d) == IF d >= 0 THEN <<2^d, 1>> ELSE <<1, 2^(0 - d)>>
M == RInt(MB)

Rew(i) == RNorm(<<R[i], Scale>>)                    \* RewardScaler(int): reward / scale  (Scale = 1: unscaled)
Rho(i) == Pow2(D[i] - DOff)
Lo == RSub(RInt(1), Clip)   Hi == RAdd(RInt(1), Clip)
Clamp(q) == IF RLeq(q, Lo) THEN Lo ELSE IF RLeq(Hi, q) THEN Hi ELSE q
Adv(i) == RSub(Rew(i), RInt(X[i]))
Unclipped(i) == RMul(Rho(i), Adv(i))
Clipped(i) == RMul(Clamp(Rho(i)), Adv(i))
Active(i) == RLeq(Unclipped(i), Clipped(i))
Term(i) == IF Active(i) THEN Unclipped(i) ELSE Clipped(i)
Sq(q) == RMul(q, q)
VTerm(i) == Sq(RSub(RInt(X[i]), Rew(i)))
ETerm(i) == RInt(E[i])

Surrogate == Neg(RDiv(SumOver(S, Term), M))
Value == RDiv(SumOver(S, VTerm), M)
Entropy == RDiv(SumOver(S, ETerm), M)
Loss == RSub(RAdd(Surrogate, RMul(Vf, Value)), RMul(Ent, Entropy))
MeanReward == RDiv(SumOver(S, Rew), M)
GradL(i) == IF i \in S /\ Active(i) THEN Neg(RDiv(Unclipped(i), M)) ELSE Zero
GradX(i) == IF i \in S THEN RDiv(RMul(RMul(RInt(2), Vf), RSub(RInt(X[i]), Rew(i))), M) ELSE Zero
GradE(i) == IF i \in S THEN Neg(RDiv(Ent, M)) ELSE Zero

(* ---- algebraic invariants of the surrogate ---- *)
\* the objective never rewards moving the ratio beyond the clip range in the advantage's direction
ClipBound == ready => \A i \in S : /\ (RLeq(Zero, Adv(i)) => RLeq(Term(i), RMul(Hi, Adv(i))))
                          /\ (RLeq(Adv(i), Zero) => RLeq(Term(i), RMul(Lo, Adv(i))))
\* pessimism: the clipped objective is a lower bound of the unclipped importance-weighted advantage
Pessimistic == ready => \A i \in S : RLeq(Term(i), Unclipped(i))
\* the critic regresses on the step reward: its gradient is -2 vf adv / MB  (zero exactly where the advantage is zero)
ValueGradIsAdv == ready => \A i \in S : REq(GradX(i), Neg(RDiv(RMul(RMul(RInt(2), Vf), Adv(i)), M)))
\* on-policy (ratio 1 everywhere) the policy gradient is that of one-step advantage actor-critic
OnPolicyIsA2C == (ready /\ \A i \in S : D[i] = DOff) => \A i \in S : REq(GradL(i), Neg(RDiv(Adv(i), M)))
\* integer reward scaling divides the reward before the advantage is formed (not the advantage, not the loss)
ScaleIsOnReward == ready => \A i \in S : REq(RMul(RInt(Scale), Adv(i)), RSub(RInt(R[i]), RInt(Scale * X[i])))

Emit == ready => PrintT(<<"W", R, D, X, E, Sorted(S), Loss, [i \in Tr |-> GradL(i)], [i \in Tr |-> GradX(i)],
                 [i \in Tr |-> GradE(i)], MeanReward>>)
=============================================================================
