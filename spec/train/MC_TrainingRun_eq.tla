-------------------------- MODULE MC_TrainingRun_eq --------------------------
(* C17 / C20, unbounded part -- TLC-checked REFINEMENT: on the bounded scope of c21 every behaviour of TrainingRun.tla is, for
   EVERY watched training item wi and evaluation item wy, a behaviour of the scalar abstraction MC_TrainingRun_apa.tla that
   Apalache proves correct for any number of epochs / warm-up length / set sizes / policy values.

     RefInit  (invariant)        initial states map to Init
     RefStep  (action property)  every step maps to Next (SetupWith -> Setup, TrainEpoch -> TrainEpoch, ...)
     RefInv   (invariant)        the inductive invariant Ind and its consequences Concl hold on the mapped reachable states
   Run with SPECIFICATION Spec of TrainingRun.tla.                                                                     *)
EXTENDS TrainingRun

A(wi, wy) == INSTANCE MC_TrainingRun_apa WITH
                pc <- pc, maxEp <- maxEp, nWarm <- nWarm, nTrain <- NTrain, nEval <- NEval, ep <- ep,
                an <- alpha[1], ad <- alpha[2],
                pol <- pol, blPol <- blPol, blVer <- blVer, evVer <- evVer, dsVer <- dsVer,
                wrapped <- (extras # <<>>),
                xi <- wi, xe <- IF extras = <<>> THEN 0 ELSE extras[wi],
                yi <- wy, yv <- IF blVals = <<>> THEN 0 ELSE blVals[wy],
                w1 <- IF wrapInfo = <<>> THEN 0 ELSE wrapInfo[1],
                w2 <- IF wrapInfo = <<>> THEN 0 ELSE wrapInfo[2],
                w3 <- IF wrapInfo = <<>> THEN 0 ELSE wrapInfo[3],
                w4n <- IF wrapInfo = <<>> THEN 0 ELSE wrapInfo[4][1],
                w4d <- IF wrapInfo = <<>> THEN 0 ELSE wrapInfo[4][2]

RefInit == pc = "init" => \A wi \in 1..NTrain, wy \in 1..NEval : A(wi, wy)!Init
RefStep == [][\A wi \in 1..NTrain, wy \in 1..NEval : A(wi, wy)!Next]_vars
RefInv  == \A wi \in 1..NTrain, wy \in 1..NEval : A(wi, wy)!Ind /\ A(wi, wy)!Concl
=============================================================================
