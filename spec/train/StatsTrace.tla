----------------------------- MODULE StatsTrace -----------------------------
(* C20 on executions of the REAL classes (RewardScaler, ExponentialBaseline,
   WarmupBaseline).  One ndjson record per history; the spec walks the history
   call by call (variable l).
   kind "W": every call is RewardScaler(scale)(batch) with an integer batch.  The spec
     accumulates count, S = sum x, Q = sum x^2 exactly and compares them with integers
     the harness derived from the object's float attributes AFTER the call:
        mc   = round(mean * count * 1e4)            must be  S * 1e4
        m2c  = round(M2 * count * 1e2)              must be  (Q*count - S^2) * 1e2
        vcc  = round(std^2 * count * (count-1) * 1e2)   must be  (Q*count - S^2) * 1e2   (sample std)
        out[i] = round(output_i * (std + eps) * count * 1e2)  must be
                       (x_i * count - S) * 1e2  for scale = "norm",   x_i * count * 1e2  for "scale"
     (degenerate calls -- count = 1 or zero variance -- are marked `degenerate` and not judged).
   kind "E"/"U": calls of ExponentialBaseline.eval / WarmupBaseline.eval+epoch_callback;
     the spec re-uses the actions of Stats.tla (exact rationals) and compares the logged
     return value (units 1e-6).
   Failing clauses print <<"FAIL", tid, clause, l>>.                           *)
EXTENDS Stats, Json, IOUtils

Traces == ndJsonDeserialize(IOEnv.TRACE_FILE)
VARIABLES tid, l, n, S, Q
tvars == <<tid, l, n, S, Q>>
Tr == Traces[tid]
Ev(k) == Tr.ev[k]
Fail(c) == PrintT(<<"FAIL", tid, c, l>>)
AbsI(x) == IF x < 0 THEN -x ELSE x
\* relative 2e-4 plus 3 units
Close(x, y) == AbsI(x - y) <= (AbsI(y) \div 5000) + 3      \* (division, not multiplication: no 32-bit overflow)

TInit == /\ tid \in 1..Len(Traces) /\ l = 0 /\ n = 0 /\ S = 0 /\ Q = 0
         /\ InitAll
TNext == /\ l < Len(Tr.ev) /\ l' = l + 1 /\ UNCHANGED tid
         /\ LET e == Ev(l + 1) IN
            CASE Tr.kind = "W" ->
                   /\ n' = n + Len(e.batch) /\ S' = S + ISum(e.batch)
                   /\ Q' = Q + ISum([i \in 1..Len(e.batch) |-> e.batch[i] * e.batch[i]])
                   /\ UNCHANGED <<varsW, varsE, varsU>>
              [] Tr.kind = "E" ->
                   /\ v' = EmaStep(Beta, v, e.batch) /\ ehist' = Append(ehist, e.batch)
                   /\ UNCHANGED <<n, S, Q, varsW, varsU>>
              [] Tr.kind = "U" ->
                   /\ (IF e.call = "epoch" THEN EpochAt(e.ep) ELSE EvalU(e.batch))
                   /\ UNCHANGED <<n, S, Q, varsW, varsE>>
TSpec == TInit /\ [][TNext]_<<tvars, varsW, varsE, varsU>>

Cur == Ev(l)
Judged == l > 0 /\ Tr.kind = "W" /\ ~Cur.degenerate
D == Q * n - S * S
M_Count == (l > 0 /\ Tr.kind = "W" /\ Cur.count # n) => Fail("count")
M_Mean  == (l > 0 /\ Tr.kind = "W" /\ ~Close(Cur.mc, S * 10000)) => Fail("running-mean")
M_M2    == (l > 0 /\ Tr.kind = "W" /\ n > 0 /\ ~Close(Cur.m2c, D * 100)) => Fail("running-M2")
M_Std   == (Judged /\ ~Close(Cur.vcc, D * 100)) => Fail("sample-std")
M_Out   == (Judged /\ \E i \in 1..Len(Cur.batch) :
               ~Close(Cur.out[i], IF Tr.mode = "norm" THEN (Cur.batch[i] * n - S) * 100
                                                       ELSE Cur.batch[i] * n * 100)) => Fail("scaled-output")
M_Ema   == (l > 0 /\ Tr.kind = "E" /\ ~RNear(Cur.ret, 1000000, v, 20)) => Fail("ema-recurrence")
M_WarmA == (l > 0 /\ Tr.kind = "U" /\ ~RNear(Cur.alpha, 1000000, alpha, 2)) => Fail("warmup-alpha")
M_WarmV == (l > 0 /\ Tr.kind = "U" /\ Cur.call = "eval" /\ ~RNear(Cur.ret, 1000000, ret, 20)) => Fail("warmup-value")
End == (l = Len(Tr.ev)) => PrintT(<<"END", tid>>)
=============================================================================
