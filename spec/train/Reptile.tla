------------------------------- MODULE Reptile -------------------------------
(* C20 (stateful training-history mechanisms), growth: the META-LEARNING callback of rl4co,
   rl4co/utils/meta_trainer.py :: ReptileCallback(num_tasks = B, alpha, alpha_decay, min_size, max_size, sch_bar,
   data_type = "size"), as ONE state machine over the hooks Lightning calls, in the order Lightning calls them:

     FitStart(ts)   on_fit_start (AFTER module.setup): _sample_task() draws B tasks `ts` (an INPUT: any B-tuple over the
                      task set {(n,) : min_size <= n <= max_size}); the FIRST one is overwritten by the size the
                      environment's generator has at that moment; task_params = selected_tasks[0]
     EpochStart     on_train_epoch_start:
                      alpha <- max(alpha * alpha_decay, 0.0001)                      (every EPOCH, also the first one)
                      current_epoch % B = 0 : meta_model_state_dict <- copy of the module's state; task_models <- []
                      otherwise            : module.load_state_dict(meta_model_state_dict)   (policy reset to the meta model)
                      trainer.optimizers <- [Adam(module.parameters(), lr = old lr * (0.1 iff current_epoch + 1 =
                                             int(sch_bar * max_epochs)))]      (a NEW optimiser: its state is empty)
     Train(s)       the optimiser steps of one epoch: an INPUT, any integer shift s of the (scalar) policy parameter
     EpochEnd(ts)   on_train_epoch_end (runs BEFORE the module's own on_train_epoch_end):
                      task_models.append(copy of the module's state)
                      (current_epoch + 1) % B = 0 :  module <- meta + alpha * mean_i (task_models[i] - meta);  new tasks `ts`
                      _load_task(task_idx = (current_epoch + 1) % B): task_params, generator.num_loc (and, if the generator
                      has a `capacity`, capacity = ceil(30 + n / 5) if n >= 20 else 20)
     ModuleEnd      RL4COLitModule.on_train_epoch_end: unless this was the last epoch a new training set is generated with
                      the generator as it is NOW (i.e. already re-parameterised for the next task); the trainer advances

   Abstraction.  A model copy is ONE exact rational (the stub policy's only parameter / one probed coordinate of a real
   network: the update is coordinate-wise).  History variables: upd (the last outer-loop update), trained (size of the
   training instances in each epoch trained so far), smp (the task batches drawn so far), hist (actions with inputs).  *)
EXTENDS Rat, Naturals, FiniteSets, TLC          \* Rat: Integers, Sequences, exact rationals <<num, den>>

CONSTANTS MaxEpochs,          \* runs of 1..MaxEpochs epochs (trainer.max_epochs)
          Bs,                 \* values of num_tasks
          A0N, A0D,           \* alpha     = A0N / A0D
          DN, DD,             \* alpha_decay = DN / DD
          FlN, FlD,           \* the floor of alpha as coded: 1 / 10000
          MinSize, MaxSize,   \* task set of data_type "size"
          Size0, Cap0,        \* generator.num_loc / generator.capacity when the fit starts
          HasCap,             \* BOOLEAN: the generator has a `capacity` attribute (CVRP)
          Theta0,             \* initial value of the policy parameter
          Shifts, ShiftOff,   \* a training epoch shifts the parameter by s - ShiftOff, s \in Shifts (cfg: no negatives)
          SchN, SchD          \* sch_bar = SchN / SchD

VARIABLES pc,        \* "init" | "start" | "train" | "end" | "regen" | "done"
          maxEp, B,
          ep,        \* trainer.current_epoch
          alpha,     \* callback.alpha
          pol,       \* the module's (policy's) parameter
          meta,      \* callback.meta_model_state_dict (hasMeta: the attribute exists)
          hasMeta,
          tms,       \* callback.task_models
          sel,       \* callback.selected_tasks (sizes)
          cur,       \* callback.task_params
          genN,      \* env.generator.num_loc
          genCap,    \* env.generator.capacity
          dataN,     \* size of the instances of module.train_dataset
          optNew,    \* optimisers created by the callback so far
          optFresh,  \* trainer.optimizers[0].state is empty
          lrDec,     \* how often the factor 0.1 was applied to the learning rate
          upd,       \* history: <<meta, task models, alpha, result>> of the last outer-loop update
          trained,   \* history: dataN at every Train
          smp,       \* history: the task batches drawn (fit start, then one per completed batch)
          hist
vars == <<pc, maxEp, B, ep, alpha, pol, meta, hasMeta, tms, sel, cur, genN, genCap, dataN, optNew, optFresh, lrDec,
          upd, trained, smp, hist>>

(* ---- exact rationals with least common denominators (32-bit safe for the scopes used) ---- *)
LCM(a, b) == (a \div GCD(a, b)) * b
LAdd(a, b) == LET L == LCM(a[2], b[2]) IN RNorm(<<a[1] * (L \div a[2]) + b[1] * (L \div b[2]), L>>)
LSub(a, b) == LET L == LCM(a[2], b[2]) IN RNorm(<<a[1] * (L \div a[2]) - b[1] * (L \div b[2]), L>>)
LLeq(a, b) == LET L == LCM(a[2], b[2]) IN a[1] * (L \div a[2]) <= b[1] * (L \div b[2])
RMax(a, b) == IF LLeq(a, b) THEN b ELSE a
RECURSIVE RPow(_, _)
RPow(r, k) == IF k = 0 THEN <<1, 1>> ELSE RMul(r, RPow(r, k - 1))
RECURSIVE LSum(_)
LSum(s) == IF s = <<>> THEN <<0, 1>> ELSE LAdd(Head(s), LSum(Tail(s)))
Mean(s) == RDiv(LSum(s), RInt(Len(s)))
Zero == <<0, 1>>
One == <<1, 1>>

Alpha0 == RNorm(<<A0N, A0D>>)
Decay  == RNorm(<<DN, DD>>)
Floor  == RNorm(<<FlN, FlD>>)
Tasks  == MinSize..MaxSize                                    \* _generate_task_set("size", min_size, max_size)
CapOf(n) == IF n >= 20 THEN 30 + ((n + 4) \div 5) ELSE 20     \* math.ceil(30 + n / 5) if n >= 20 else 20
SchK == (SchN * maxEp) \div SchD                              \* int(sch_bar * max_epochs)

Init == /\ pc = "init" /\ maxEp \in 1..MaxEpochs /\ B \in Bs /\ ep = 0
        /\ alpha = Alpha0 /\ pol = RInt(Theta0) /\ meta = Zero /\ hasMeta = FALSE /\ tms = <<>>
        /\ sel = <<>> /\ cur = 0 /\ genN = Size0 /\ genCap = Cap0 /\ dataN = Size0      \* module.setup ran before
        /\ optNew = 0 /\ optFresh = TRUE /\ lrDec = 0
        /\ upd = <<>> /\ trained = <<>> /\ smp = <<>> /\ hist = <<>>

FitStart(ts) ==
  /\ pc = "init"
  /\ sel' = [ts EXCEPT ![1] = genN]             \* the first task is the environment's own size, whatever was drawn
  /\ cur' = genN
  /\ smp' = <<ts>>
  /\ pc' = "start" /\ hist' = Append(hist, <<"fit", ts>>)
  /\ UNCHANGED <<maxEp, B, ep, alpha, pol, meta, hasMeta, tms, genN, genCap, dataN, optNew, optFresh, lrDec, upd, trained>>

EpochStart ==
  /\ pc = "start"
  /\ alpha' = RMax(RMul(alpha, Decay), Floor)
  /\ IF ep % B = 0
       THEN /\ meta' = pol /\ hasMeta' = TRUE /\ tms' = <<>> /\ UNCHANGED pol
       ELSE /\ pol' = meta /\ UNCHANGED <<meta, hasMeta, tms>>
  /\ optNew' = optNew + 1 /\ optFresh' = TRUE
  /\ lrDec' = lrDec + (IF ep + 1 = SchK THEN 1 ELSE 0)
  /\ pc' = "train" /\ hist' = Append(hist, <<"start">>)
  /\ UNCHANGED <<maxEp, B, ep, sel, cur, genN, genCap, dataN, upd, trained, smp>>

TrainTo(v, h) ==
  /\ pc = "train"
  /\ pol' = v
  /\ optFresh' = FALSE                          \* the optimiser has stepped: it carries moment estimates
  /\ trained' = Append(trained, dataN)
  /\ pc' = "end" /\ hist' = Append(hist, h)
  /\ UNCHANGED <<maxEp, B, ep, alpha, meta, hasMeta, tms, sel, cur, genN, genCap, dataN, optNew, lrDec, upd, smp>>
Train(s) == TrainTo(LAdd(pol, RInt(s - ShiftOff)), <<"train", s - ShiftOff>>)

Boundary == (ep + 1) % B = 0
\* meta + alpha * mean_i (task model i - meta), as coded
Outer(m, tm, a) == LAdd(m, RMul(a, Mean([i \in DOMAIN tm |-> LSub(tm[i], m)])))

EpochEnd(ts) ==
  /\ pc = "end"
  /\ LET tm2  == Append(tms, pol)
         new  == Outer(meta, tm2, alpha)
         sel2 == IF Boundary THEN ts ELSE sel
         t    == sel2[((ep + 1) % B) + 1]
     IN /\ tms' = tm2
        /\ pol' = IF Boundary THEN new ELSE pol
        /\ upd' = IF Boundary THEN <<meta, tm2, alpha, new>> ELSE upd
        /\ sel' = sel2
        /\ smp' = IF Boundary THEN Append(smp, ts) ELSE smp
        /\ cur' = t /\ genN' = t
        /\ genCap' = IF HasCap THEN CapOf(t) ELSE genCap
  /\ pc' = "regen" /\ hist' = Append(hist, <<"end", ts>>)
  /\ UNCHANGED <<maxEp, B, ep, alpha, meta, hasMeta, dataN, optNew, optFresh, lrDec, trained>>

ModuleEnd ==
  /\ pc = "regen"
  /\ dataN' = IF ep < maxEp - 1 THEN genN ELSE dataN
  /\ ep' = ep + 1
  /\ pc' = IF ep + 1 = maxEp THEN "done" ELSE "start"
  /\ hist' = Append(hist, <<"regen">>)
  /\ UNCHANGED <<maxEp, B, alpha, pol, meta, hasMeta, tms, sel, cur, genN, genCap, optNew, optFresh, lrDec, upd, trained, smp>>

Batches == [1..B -> Tasks]
Next == \/ \E ts \in Batches : FitStart(ts)
        \/ EpochStart
        \/ \E s \in Shifts : Train(s)
        \/ \E ts \in (IF Boundary THEN Batches ELSE {<<>>}) : EpochEnd(ts)
        \/ ModuleEnd
Spec == Init /\ [][Next]_vars

(* ------------------------------ the clauses ------------------------------ *)
Started == IF pc \in {"train", "end", "regen"} THEN ep + 1 ELSE ep          \* on_train_epoch_start calls so far
\* alpha after k epoch starts, closed form of the coded recursion (valid for 0 <= decay <= 1)
AlphaAt(k) == IF k = 0 THEN Alpha0 ELSE RMax(RMul(Alpha0, RPow(Decay, k)), Floor)
AlphaSchedule == LLeq(Decay, One) => alpha = AlphaAt(Started)
\* ... and the weight used by the outer-loop update that closes epoch e is the one after e + 1 decays
AlphaOfUpdate == (upd # <<>> /\ LLeq(Decay, One)) =>
   upd[3] = AlphaAt(IF pc = "regen" THEN ((ep + 1) \div B) * B ELSE (ep \div B) * B)

\* the outer-loop update is the Reptile step  theta' - theta = alpha * (mean of the task models - theta);
\* for 0 <= alpha <= 1 the result lies between theta and that mean
Between(a, x, b) == (LLeq(a, x) /\ LLeq(x, b)) \/ (LLeq(b, x) /\ LLeq(x, a))
MetaIsConvexStep == upd # <<>> =>
   LET th == upd[1]  m == Mean(upd[2])  a == upd[3]  r == upd[4] IN
     /\ LSub(r, th) = RMul(a, LSub(m, th))
     /\ (LLeq(Zero, a) /\ LLeq(a, One)) => Between(th, r, m)
\* the result of the update is what the next meta iteration starts from (the copy is taken at the next epoch start)
MetaWrittenBack == (pc \in {"train", "end"} /\ ep % B = 0 /\ ep > 0) => meta = upd[4]

\* which task is trained in which epoch: epoch 0 the environment's own size; epoch e > 0 the (e % B)-th task of the
\* (e \div B)-th batch drawn; a batch is drawn at fit start and whenever a batch of B epochs is complete
TaskOf(e) == IF e = 0 THEN Size0 ELSE smp[(e \div B) + 1][(e % B) + 1]
E == IF pc = "regen" THEN ep + 1 ELSE ep                                     \* the epoch `cur` refers to
TaskSchedule == pc # "init" =>
   /\ Len(sel) = B /\ cur = sel[(E % B) + 1] /\ cur = TaskOf(E)
   /\ Len(smp) = (E \div B) + 1
   /\ \A i \in 1..B : sel[i] \in Tasks \/ (i = 1 /\ E < B /\ sel[i] = Size0)
   /\ \A e \in 0..(Len(trained) - 1) : trained[e + 1] = TaskOf(e)
\* every task is trained for exactly ONE epoch; an outer-loop update merges exactly B task models
InnerLoopLength ==
   /\ pc \in {"train", "end"} => Len(tms) = ep % B
   /\ pc = "regen" => Len(tms) = (ep % B) + 1
   /\ upd # <<>> => Len(upd[2]) = B
   /\ (upd = <<>>) <=> (E < B)
\* at the start of a task's inner loop the policy is the meta model
PolicyStartsFromMeta == pc = "train" => (hasMeta /\ pol = meta)
\* the generator (and the data trained on) is the current task's
NeverLoaded == ep = 0 /\ pc \in {"init", "start", "train", "end"}
EnvMatchesTask == pc # "init" =>
   /\ genN = cur
   /\ pc \in {"train", "end"} => dataN = cur
   /\ HasCap => genCap = (IF NeverLoaded THEN Cap0 ELSE CapOf(cur))
\* a new optimiser (empty state) for every epoch; the learning rate drops once, in epoch int(sch_bar * max_epochs) - 1
OptimizerPerEpoch == /\ optNew = Started
                     /\ pc = "train" => optFresh
                     /\ lrDec = (IF SchK >= 1 /\ Started >= SchK THEN 1 ELSE 0)
TypeOK == /\ pc \in {"init", "start", "train", "end", "regen", "done"} /\ ep \in 0..maxEp /\ LLeq(Zero, alpha)
          /\ (pc = "done") <=> (ep = maxEp)

\* the meta model changes only when a batch of tasks starts (action property)
MetaOnlyAtBatchStart == [][(meta' # meta \/ hasMeta' # hasMeta) => (pc = "start" /\ ep % B = 0)]_vars
\* the policy parameter changes only by training, by the reset at a task's start and by the outer-loop update
PolicyChangesOnlyThere == [][pol' # pol => (pc = "train" \/ (pc = "start" /\ ep % B # 0) \/ (pc = "end" /\ Boundary))]_vars

\* (not an invariant of the code: see the harness' observations) the model delivered at the end is a meta model
FinalIsMeta == pc = "done" => (upd # <<>> /\ pol = upd[4])
AlphaInUnit == LLeq(alpha, One)

\* every state with its history, for the replay into the real objects
Abs == <<pc, ep, alpha, pol, meta, hasMeta, tms, sel, cur, genN, genCap, dataN, optNew, optFresh, lrDec>>
Emit == PrintT(<<"S", maxEp, B, hist, Abs>>)
=============================================================================
