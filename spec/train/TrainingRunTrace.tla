--------------------------- MODULE TrainingRunTrace ---------------------------
(* The epoch protocol of TrainingRun.tla on executions of the REAL code: a real REINFORCE module (default "rollout"
   baseline = WarmupBaseline(RolloutBaseline)) driven either by the harness (setup / train_dataloader + calculate_loss /
   on_train_epoch_end with a minimal trainer object) or by a real RL4COTrainer.fit.
   One ndjson record per run:  maxEp, nWarm, shuffle, ev = sequence of events
       [a |-> "setup" | "train" | "end" | "regen",
        pol   (setup, train: value of the training policy after the action)
        order (train: the instance indices in the order the loader delivered them)
        sig   (end: outcome of the one-sided paired t-test as the real scipy routine returned it; FALSE when not consulted)
        obs |-> the abstract state PROJECTED from the real objects after the action:
                ep, alpha <<n, d>>, pol, blPol, blVer, evVer, blVals, blSum, dsVer, extras, batches, updated]
   The specification applies TrainingRun's own actions with the inputs of the event and compares every component of the
   projected state with its variables.  Failing clauses print <<"FAIL", tid, clause, l>>; nothing halts TLC.            *)
EXTENDS TrainingRun, Json, IOUtils

Traces == ndJsonDeserialize(IOEnv.TRACE_FILE)
VARIABLES tid, l
tvars == <<tid, l>>
Tr == Traces[tid]
Ev(k) == Tr.ev[k]

TInit == /\ tid \in 1..Len(Traces) /\ l = 0
         /\ Init /\ maxEp = Tr.maxEp /\ nWarm = Tr.nWarm
TNext == /\ l < Len(Tr.ev) /\ l' = l + 1 /\ UNCHANGED tid
         /\ LET e == Ev(l + 1) IN
              CASE e.a = "setup" -> SetupWith(e.pol)
                [] e.a = "train" -> TrainEpoch(e.pol, e.order)
                [] e.a = "end"   -> EpochEnd(e.sig)
                [] e.a = "regen" -> Regen
TSpec == TInit /\ [][TNext]_<<tvars, vars>>

Fail(c) == PrintT(<<"FAIL", tid, c, l>>)
Cur == Ev(l)
O == Cur.obs
On == l > 0

(* ---- C20: alpha schedule and state of the rollout baseline ---- *)
M_Alpha    == (On /\ ~REq(O.alpha, alpha)) => Fail("alpha-schedule")
M_Update   == (On /\ Cur.a = "end" /\ O.updated # chal[3]) => Fail("update-iff-better-and-significant")
M_BlPolicy == (On /\ (O.blPol # blPol \/ O.blVer # blVer)) => Fail("baseline-policy-version")
M_EvalSet  == (On /\ O.evVer # evVer) => Fail("evaluation-set-renewed-on-update")
M_BlVals   == (On /\ (O.blVals # blVals \/ O.blSum # blSum)) => Fail("bl-vals-of-current-baseline")
(* ---- C17: identity of the training set, its extras and the batches ---- *)
M_Dataset  == (On /\ O.dsVer # dsVer) => Fail("training-set-regeneration")
M_Wrapped  == (On /\ ((O.extras = <<>>) # (extras = <<>>))) => Fail("extra-iff-warmed-up")
M_Extras   == (On /\ O.extras # <<>> /\ extras # <<>> /\ O.extras # extras) => Fail("extra-of-own-instance-by-current-baseline")
M_Perm     == (On /\ Cur.a = "train" /\
                 ~(/\ Len(Cur.order) = NTrain
                   /\ {Cur.order[i] : i \in DOMAIN Cur.order} = 1..NTrain
                   /\ (Tr.shuffle \/ Cur.order = Ident(NTrain)))) => Fail("loss-or-duplication")
M_Batches  == (On /\ Cur.a = "train" /\ O.batches # batches) => Fail("batches-carry-own-extra")
(* ---- bookkeeping of the harness itself (never a verdict) ---- *)
M_Drift    == (On /\ (O.ep # ep \/ O.pol # pol)) => PrintT(<<"DRIFT", tid, l>>)
End == (l = Len(Tr.ev)) => PrintT(<<"END", tid>>)
=============================================================================
