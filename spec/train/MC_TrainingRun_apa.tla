-------------------------- MODULE MC_TrainingRun_apa --------------------------
(* C17 / C20, UNBOUNDED -- the epoch protocol of TrainingRun.tla (REINFORCE + WarmupBaseline(RolloutBaseline)) for ANY number
   of epochs, ANY warm-up length (0 = "rollout_only"), ANY training / evaluation set size and ANY integer policy values, checked
   with Apalache as an inductive invariant (mathematical integers, nothing enumerated).  TLC (c21_trainrun.py) covers
   MaxEpochs <= 3..4, warm-up 0..2, NTrain <= 3, a handful of policy values.

   Abstraction of TrainingRun.tla (scalar state only):
     alpha            the pair (an, ad).  RNorm is abstracted by what it guarantees: the result has a positive denominator, a
                      non-negative numerator and is REq to its argument  (an' * nWarm = (ep + 1) * ad')
     extras           `wrapped` (extras # <<>>) and ONE arbitrary entry: index xi \in 1..nTrain, value xe  (pointwise, as in
                      MC_Layout_apa.tla: xi is fixed by Init and arbitrary)
     blVals           one arbitrary entry: index yi \in 1..nEval, value yv
     wrapInfo         w1, w2, w3 and the pair (w4n, w4d)
     Better /\ sig    a free choice (the abstract EpochEnd may or may not replace the baseline): blSum is not kept
     batches, hist, chal   dropped (the batches of one epoch are machine P of MC_Loader_apa.tla)
   The steps contain no quantifier over an infinite set ("x' \in Int /\ constraint"), so TLC can evaluate them on a given pair
   of states: MC_TrainingRun_eq.tla checks with TLC that on the bounded scope of c21 every step of TrainingRun.tla is a step of
   this machine under the refinement mapping, for every watched (xi, yi).

   Checks (harness/props/unbounded.py):  Init => Ind ;  Ind /\ Next => Ind' ;  Ind => Concl, where Concl is
     AlphaSchedule  ExtraAtWrap  ExtraFromCurrentBaseline  BlValsCurrent (pointwise)  DatasetPerEpoch  VersionsCount  TypeOK
     and WrappedIff: an epoch trains on a wrapped set iff it is not the first epoch or there is no warm-up.            *)
EXTENDS Integers

VARIABLES
  \* @type: Str;
  pc,
  \* @type: Int;
  maxEp,
  \* @type: Int;
  nWarm,
  \* @type: Int;
  nTrain,
  \* @type: Int;
  nEval,
  \* @type: Int;
  ep,
  \* @type: Int;
  an,
  \* @type: Int;
  ad,
  \* @type: Int;
  pol,
  \* @type: Int;
  blPol,
  \* @type: Int;
  blVer,
  \* @type: Int;
  evVer,
  \* @type: Int;
  dsVer,
  \* @type: Bool;
  wrapped,
  \* @type: Int;
  xi,
  \* @type: Int;
  xe,
  \* @type: Int;
  yi,
  \* @type: Int;
  yv,
  \* @type: Int;
  w1,
  \* @type: Int;
  w2,
  \* @type: Int;
  w3,
  \* @type: Int;
  w4n,
  \* @type: Int;
  w4d

R(dd, ii, vv) == 100 * dd + 10 * ii + vv                      \* R of TrainingRun.tla

\* @type: <<Int, Int, Int, Int, Int, Int>>;
params == <<maxEp, nWarm, nTrain, nEval, xi, yi>>
\* @type: <<Int, Int, Int, Int, Int>>;
winfo == <<w1, w2, w3, w4n, w4d>>
\* @type: <<Int, Int, Int, Int>>;
bl == <<blPol, blVer, evVer, yv>>

Init == /\ pc = "init"
        /\ maxEp \in Int /\ maxEp >= 1 /\ nWarm \in Int /\ nWarm >= 0
        /\ nTrain \in Int /\ nTrain >= 1 /\ nEval \in Int /\ nEval >= 1
        /\ xi \in Int /\ xi >= 1 /\ xi <= nTrain /\ yi \in Int /\ yi >= 1 /\ yi <= nEval
        /\ ep = 0 /\ an = (IF nWarm = 0 THEN 1 ELSE 0) /\ ad = 1
        /\ pol = 0 /\ blPol = 0 /\ blVer = 0 /\ evVer = 0 /\ dsVer = 0
        /\ wrapped = FALSE /\ xe = 0 /\ yv = 0 /\ w1 = 0 /\ w2 = 0 /\ w3 = 0 /\ w4n = 0 /\ w4d = 0

\* TrainingRun.SetupWith(p0), p0 = pol'
Setup == /\ pc = "init"
         /\ pol' \in Int
         /\ blPol' = pol' /\ blVer' = 1 /\ evVer' = 1 /\ yv' = R(1, yi, pol')
         /\ dsVer' = 1 /\ wrapped' = (an > 0) /\ xe' = (IF an > 0 THEN R(1, xi, pol') ELSE 0)
         /\ w1' = 1 /\ w2' = 1 /\ w3' = pol' /\ w4n' = an /\ w4d' = ad
         /\ pc' = "train"
         /\ UNCHANGED <<params, ep, an, ad>>
\* TrainingRun.TrainEpoch(p, order), p = pol'
TrainEpoch == /\ pc = "train"
              /\ pol' \in Int
              /\ pc' = "end"
              /\ UNCHANGED <<params, ep, an, ad, bl, dsVer, wrapped, xe, winfo>>
\* TrainingRun.EpochEnd(sig): the baseline is replaced (copy of the training policy, new evaluation set) or not
EpochEnd == /\ pc = "end"
            /\ \/ blPol' = pol /\ blVer' = blVer + 1 /\ evVer' = evVer + 1 /\ yv' = R(evVer + 1, yi, pol)
               \/ UNCHANGED bl
            /\ IF ep < nWarm
                 THEN /\ an' \in Int /\ ad' \in Int /\ ad' > 0 /\ an' >= 0
                      /\ an' * nWarm = (ep + 1) * ad'                    \* alpha' = RNorm(<<ep + 1, nWarm>>)
                 ELSE an' = an /\ ad' = ad
            /\ pc' = "regen"
            /\ UNCHANGED <<params, ep, pol, dsVer, wrapped, xe, winfo>>
\* TrainingRun.Regen
Regen == /\ pc = "regen"
         /\ IF ep < maxEp - 1
              THEN /\ dsVer' = dsVer + 1 /\ wrapped' = (an > 0)
                   /\ xe' = (IF an > 0 THEN R(dsVer + 1, xi, blPol) ELSE 0)
                   /\ w1' = dsVer + 1 /\ w2' = blVer /\ w3' = blPol /\ w4n' = an /\ w4d' = ad
              ELSE UNCHANGED <<dsVer, wrapped, xe, winfo>>
         /\ ep' = ep + 1
         /\ pc' = (IF ep + 1 = maxEp THEN "done" ELSE "train")
         /\ UNCHANGED <<params, an, ad, pol, bl>>
Next == Setup \/ TrainEpoch \/ EpochEnd \/ Regen

CB == IF pc = "regen" THEN ep + 1 ELSE ep                      \* epoch callbacks executed so far
\* REq(alpha, IF CB >= nWarm THEN <<1, 1>> ELSE <<CB, nWarm>>)
AlphaSchedule == IF CB >= nWarm THEN an = ad ELSE an * nWarm = CB * ad

Ind == /\ pc \in {"init", "train", "end", "regen", "done"}
       /\ maxEp \in Int /\ nWarm \in Int /\ nTrain \in Int /\ nEval \in Int /\ ep \in Int /\ an \in Int /\ ad \in Int
       /\ pol \in Int /\ blPol \in Int /\ blVer \in Int /\ evVer \in Int /\ dsVer \in Int /\ wrapped \in BOOLEAN
       /\ xi \in Int /\ xe \in Int /\ yi \in Int /\ yv \in Int
       /\ w1 \in Int /\ w2 \in Int /\ w3 \in Int /\ w4n \in Int /\ w4d \in Int
       /\ maxEp >= 1 /\ nWarm >= 0 /\ nTrain >= 1 /\ nEval >= 1 /\ xi >= 1 /\ xi <= nTrain /\ yi >= 1 /\ yi <= nEval
       /\ ep >= 0 /\ ep <= maxEp /\ ad > 0 /\ an >= 0 /\ an <= ad
       /\ pc = "init" => /\ ep = 0 /\ blVer = 0 /\ evVer = 0 /\ dsVer = 0 /\ ~wrapped /\ ad = 1
                         /\ an = (IF nWarm = 0 THEN 1 ELSE 0)
       /\ pc \in {"train", "end", "regen"} => ep < maxEp
       /\ pc = "done" => ep = maxEp
       /\ AlphaSchedule
       /\ pc # "init" => /\ evVer = blVer /\ blVer >= 1 /\ yv = R(evVer, yi, blPol)
                         /\ w1 = dsVer /\ w4d > 0 /\ w4n >= 0 /\ (wrapped <=> w4n > 0)
                         /\ wrapped => xe = R(dsVer, xi, w3)
       /\ pc \in {"train", "end", "regen"} => dsVer = ep + 1
       /\ pc = "done" => dsVer = maxEp
       /\ pc \in {"train", "end"} => /\ w2 = blVer /\ w3 = blPol
                                     /\ w4n = an /\ w4d = ad         \* alpha has not moved since the wrap

Concl == Ind =>
   /\ pc # "init" => AlphaSchedule                                                           \* AlphaSchedule
   /\ pc # "init" => (w1 = dsVer /\ (~wrapped <=> ~(w4n > 0)) /\ (wrapped => xe = R(dsVer, xi, w3)))   \* ExtraAtWrap
   /\ (pc \in {"train", "end"} /\ wrapped) => (w2 = blVer /\ xe = R(dsVer, xi, blPol))      \* ExtraFromCurrentBaseline
   /\ pc # "init" => yv = R(evVer, yi, blPol)                                               \* BlValsCurrent
   /\ (pc \in {"train", "end", "regen"} => dsVer = ep + 1) /\ (pc = "done" => dsVer = maxEp)  \* DatasetPerEpoch
   /\ pc # "init" => evVer = blVer                                                           \* VersionsCount
   /\ ep >= 0 /\ ep <= maxEp /\ 0 * ad <= an * 1 /\ an * 1 <= 1 * ad                         \* TypeOK
   /\ pc \in {"train", "end"} => (wrapped <=> (ep >= 1 \/ nWarm = 0))                        \* WrappedIff
=============================================================================
