------------------------------- MODULE Stats -------------------------------
(* C20 -- running statistics and stateful baselines, exact arithmetic.
   Three state machines (one INIT/NEXT pair each, selected by the .cfg):
     W  rl4co.models.rl.common.utils.RewardScaler.update  (batched Welford)
     E  rl4co.models.rl.reinforce.baselines.ExponentialBaseline.eval
     U  rl4co.models.rl.reinforce.baselines.WarmupBaseline (eval + epoch_callback)
        wrapping an exponential inner baseline
   Each action is one public call of the real class; the variables are the
   attributes the class keeps (count, mean, M2 / v / alpha); `hist` and the
   seen_* variables are history variables from which the invariants recompute
   the stated quantities independently.                                      *)
EXTENDS Rat, Naturals, FiniteSets, TLC

CONSTANTS Vals0, Off, \* a batch may contain the integers x - Off for x \in Vals0 (cfg files cannot hold negatives)
          MaxLen,     \* maximal batch size
          MaxB,       \* number of calls explored
          BetaN, BetaD,      \* EMA beta  = BetaN / BetaD   (machine E; warm-up baseline of U)
          Beta2N, Beta2D,    \* beta of the inner baseline of U
          NEp                \* warm-up epochs of U

Values == {x - Off : x \in Vals0}
Batches == UNION {[1..n -> Values] : n \in 1..MaxLen}
RECURSIVE ISum(_)
ISum(s) == IF s = <<>> THEN 0 ELSE Head(s) + ISum(Tail(s))
RECURSIVE Flat(_)
Flat(h) == IF h = <<>> THEN <<>> ELSE Head(h) \o Flat(Tail(h))
BMean(b) == RNorm(<<ISum(b), Len(b)>>)

(* ============================ W: Welford ================================ *)
VARIABLES hist, cnt, mean, m2
varsW == <<hist, cnt, mean, m2>>
StartW == hist = <<>> /\ cnt = 0 /\ mean = <<0, 1>> /\ m2 = <<0, 1>>
\* RewardScaler.update(batch)
Observe(b) ==
  LET c2     == cnt + Len(b)
      delta  == [i \in 1..Len(b) |-> RSub(RInt(b[i]), mean)]                 \* batch - self.mean
      mean2  == RAdd(mean, RSumSeq([i \in 1..Len(b) |-> RDiv(delta[i], RInt(c2))]))   \* += (delta / count).sum()
      delta2 == [i \in 1..Len(b) |-> RSub(RInt(b[i]), mean2)]                \* batch - new mean
  IN /\ cnt' = c2
     /\ mean' = mean2
     /\ m2' = RAdd(m2, RSumSeq([i \in 1..Len(b) |-> RMul(delta[i], delta2[i])]))
     /\ hist' = Append(hist, b)
StepW == Len(hist) < MaxB /\ \E b \in Batches : Observe(b)
\* ground truth from the history alone
All == Flat(hist)
SumAll == ISum(All)
SumSq == ISum([i \in 1..Len(All) |-> All[i] * All[i]])
CountExact == cnt = Len(All)
MeanExact  == cnt > 0 => REq(mean, <<SumAll, cnt>>)                           \* mean of all values seen
M2Exact    == cnt > 0 => REq(m2, <<SumSq * cnt - SumAll * SumAll, cnt>>)      \* sum (x - mean)^2
\* sample variance  M2/(count-1)  =  sum (x-mean)^2 / (n-1)
VarExact   == cnt > 1 => REq(RDiv(m2, RInt(cnt - 1)),
                             <<SumSq * cnt - SumAll * SumAll, cnt * (cnt - 1)>>)
EmitW == PrintT(<<"W", hist, cnt, mean, m2>>)

(* ===================== E: exponential moving average ==================== *)
VARIABLES ehist, v            \* v = <<>> before the first call (self.v is None)
varsE == <<ehist, v>>
Beta == <<BetaN, BetaD>>
EmaStep(beta, old, b) == IF old = <<>> THEN BMean(b)
                         ELSE RAdd(RMul(beta, old), RMul(RSub(RInt(1), beta), BMean(b)))
StartE == ehist = <<>> /\ v = <<>>
StepE == Len(ehist) < MaxB /\ \E b \in Batches : v' = EmaStep(Beta, v, b) /\ ehist' = Append(ehist, b)
\* closed form of the recurrence: v_t = beta^(t-1) m_1 + (1-beta) * sum_{j>=2} beta^(t-j) m_j
RECURSIVE RPow(_, _)
RPow(r, n) == IF n = 0 THEN <<1, 1>> ELSE RMul(r, RPow(r, n - 1))
EmaClosed(beta, h) == LET t == Len(h) IN
   RAdd(RMul(RPow(beta, t - 1), BMean(h[1])),
        RSumSeq([j \in 1..(t - 1) |-> RMul(RMul(RSub(RInt(1), beta), RPow(beta, t - 1 - j)), BMean(h[j + 1]))]))
EmaExact == ehist # <<>> => REq(v, EmaClosed(Beta, ehist))
EmitE == PrintT(<<"E", ehist, v>>)

(* ============================= U: warm-up =============================== *)
VARIABLES uhist,      \* sequence of calls: <<"eval", batch>> or <<"epoch", e>>
          alpha, epoch, vb, vwb, seenB, seenWB, ret
varsU == <<uhist, alpha, epoch, vb, vwb, seenB, seenWB, ret>>
Beta2 == <<Beta2N, Beta2D>>
StartU == /\ uhist = <<>> /\ alpha = <<0, 1>> /\ epoch = 0 /\ vb = <<>> /\ vwb = <<>>
         /\ seenB = <<>> /\ seenWB = <<>> /\ ret = <<>>
\* WarmupBaseline.eval
EvalU(b) ==
  /\ uhist' = Append(uhist, <<"eval", b>>)
  /\ UNCHANGED <<alpha, epoch>>
  /\ IF REq(alpha, <<1, 1>>)                      \* only the inner baseline is evaluated (and advanced)
       THEN /\ vb' = EmaStep(Beta2, vb, b) /\ seenB' = Append(seenB, b)
            /\ UNCHANGED <<vwb, seenWB>> /\ ret' = EmaStep(Beta2, vb, b)
     ELSE IF REq(alpha, <<0, 1>>)                 \* only the warm-up (exponential) baseline
       THEN /\ vwb' = EmaStep(Beta, vwb, b) /\ seenWB' = Append(seenWB, b)
            /\ UNCHANGED <<vb, seenB>> /\ ret' = EmaStep(Beta, vwb, b)
     ELSE /\ vb' = EmaStep(Beta2, vb, b) /\ seenB' = Append(seenB, b)
          /\ vwb' = EmaStep(Beta, vwb, b) /\ seenWB' = Append(seenWB, b)
          /\ ret' = RAdd(RMul(alpha, EmaStep(Beta2, vb, b)),
                         RMul(RSub(RInt(1), alpha), EmaStep(Beta, vwb, b)))
\* WarmupBaseline.epoch_callback(epoch = e) called by the trainer with e = 0, 1, 2, ...
\* general form: the callback receives the trainer's epoch number e (a run resumed from a checkpoint re-creates the
\* baseline object and continues with e > 0; used by StatsTrace.tla, the model itself counts e = 0, 1, 2, ...)
EpochAt(e) ==
  /\ uhist' = Append(uhist, <<"epoch", e>>)
  /\ alpha' = IF e < NEp THEN RNorm(<<e + 1, NEp>>) ELSE alpha
  /\ epoch' = e + 1
  /\ UNCHANGED <<vb, vwb, seenB, seenWB, ret>>
EpochU == EpochAt(epoch)
StepU == Len(uhist) < MaxB /\ (EpochU \/ \E b \in Batches : EvalU(b))
\* the weight moves from zero to one over NEp epochs
AlphaExact == REq(alpha, IF epoch >= NEp THEN <<1, 1>> ELSE <<epoch, NEp>>)
\* the returned value is the stated convex combination of the two baselines' own values
RetExact == (uhist # <<>> /\ uhist[Len(uhist)][1] = "eval") =>
   LET b  == IF seenB = <<>> THEN <<0, 1>> ELSE EmaClosed(Beta2, seenB)
       wb == IF seenWB = <<>> THEN <<0, 1>> ELSE EmaClosed(Beta, seenWB)
   IN REq(ret, RAdd(RMul(alpha, b), RMul(RSub(RInt(1), alpha), wb)))
EmitU == PrintT(<<"U", uhist, alpha, ret>>)

\* one INIT/NEXT pair per machine (the other machines' variables idle)
InitAll == StartW /\ StartE /\ StartU
InitW == InitAll    InitE == InitAll    InitU == InitAll
NextW == StepW /\ UNCHANGED <<varsE, varsU>>
NextE == StepE /\ UNCHANGED <<varsW, varsU>>
NextU == StepU /\ UNCHANGED <<varsW, varsE>>
=============================================================================
