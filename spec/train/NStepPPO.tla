------------------------------ MODULE NStepPPO ------------------------------
(* C16 -- the updates of rl4co.models.rl.ppo.n_step_ppo.n_step_PPO (DACT / N2S / NeuOpt improvement
   models) on ONE batch, exact arithmetic.

   What the code does (shared_step, phase "train"):   td = env.reset(batch); int(CL_num) warm-up steps of
   the policy without gradient (curriculum); if CL_best: td = env.step_to_solution(td, td["rec_best"]);
   then T_train / n_step CHUNKS.  In a chunk the policy is rolled out for n = n_step environment steps
   (state, action, log-likelihood, critic value V_1[t], step reward r[t] stored), followed by
   ppo_epochs = NEpochs updates k = 1..NEpochs on those n*B stored steps (B rows):
        k = 1  uses the rollout's own log-likelihoods and values (ratio exactly 1),
        k > 1  re-evaluates the stored actions in the stored states: log-likelihood = old + (D_k - DOff) ln 2,
               value V_k[t];
        in EVERY epoch the value Vb_k of the state reached after the n steps is predicted anew and detached.
     n-step return   Ret_k[t] = r[t] + g r[t+1] + ... + g^(n-t) r[n] + g^(n-t+1) Vb_k         (t = 1..n)
     advantage       adv_k[t] = Ret_k[t] - V_k[t]                 (V detached)
     surrogate       -(1/(nB)) sum min(rho adv, clamp(rho, 1-c, 1+c) adv),    rho = 1 (k = 1) or 2^(D_k - DOff)
     value loss      k = 1: (1/(nB)) sum (V_1 - Ret_1)^2
                     k > 1: (1/(nB)) sum max((V_k - Ret_k)^2, (vc - Ret_k)^2),  vc = V_1 + clamp(V_k - V_1, -c, c)
                            (V_1, the first epoch's values, detached)
     loss            surrogate + vf * value loss          (this variant has NO entropy term)
   Gradients w.r.t. the epoch's log-likelihoods and values (N = nB):
     d loss/d ll_k[t]  = -(rho adv)/N if the unclipped branch is the minimum else 0
     d loss/d V_k[t]   = 2 vf (V_k - Ret_k)/N   if k = 1, or the unclipped square is the larger one, or V_k lies in
                         the clip range around V_1 (then vc = V_k);  0 if the clipped square is larger;  if both
                         squares are equal with V_k outside the range the maximum is not differentiable (Tie):
                         any value between 0 and the unclipped gradient is a sub-gradient.
     no gradient reaches Vb_k, the old log-likelihoods, V_1 (for k > 1) or the rewards.

   Mode "abs": the step rewards range over the integers RVals - ROff (replayed with a scripted environment).
   Mode "env": the rewards are those of the REAL TSPkoptEnv (2-opt mode) on an integer-distance instance:
     row 1 starts from one of Case.tours, optionally makes one curriculum move and the CL_best jump, then
     NChunks*NStep moves of Case.moves; row 2 follows the fixed script Case.row2.  The rewards are computed
     with the transcription of the environment of C09 (KOptOps!TwoOpt, Tour!Book), in units 1/Case.grid.
   The same prescribed V, Vb, D are used in every chunk (chunks differ in their rewards).               *)
EXTENDS Rat, KOptOps, Json, IOUtils
CONSTANTS Mode, NStep, NRows, NEpochs, NChunks, GamN, GamD, ClipN, ClipD, VfN, VfD,
          RVals, ROff, XVals, BVals, DVals, DOff
VARIABLES src, rw, V, Vb, D, ready
vars == <<src, rw, V, Vb, D, ready>>
Case == JsonDeserialize(IOEnv.CASE_FILE)
Steps == 1..NStep   Rows == 1..NRows   Epochs == 1..NEpochs   Chunks == 1..NChunks
Gam == <<GamN, GamD>>   Clip == <<ClipN, ClipD>>   Vf == <<VfN, VfD>>
Zero == <<0, 1>>
Neg(q) == RSub(Zero, q)
Sq(q) == RMul(q, q)

(* --------------------------- the real environment's rewards (mode "env") --------------------------- *)
Start(rec0) == [cur |-> rec0, best |-> rec0, cbsf |-> TourLen(Case.D, rec0), rew |-> 0, ccur |-> TourLen(Case.D, rec0)]
Move(st, m) == Book(Case.D, st.best, st.cbsf, TwoOpt(st.cur, m[1], m[2]))          \* env.step(td) with td["action"] = m
JumpToBest(st) == Book(Case.D, st.best, st.cbsf, st.best)                            \* env.step_to_solution(td, rec_best)
RECURSIVE After(_, _)
After(st, ms) == IF ms = <<>> THEN st ELSE After(Move(st, Head(ms)), Tail(ms))
RECURSIVE Rewards(_, _)
Rewards(st, ms) == IF ms = <<>> THEN <<>> ELSE LET s2 == Move(st, Head(ms)) IN <<s2.rew>> \o Rewards(s2, Tail(ms))
RowRewards(rec0, cl, jump, ms) ==
  LET s1 == After(Start(rec0), cl)
      s2 == IF jump THEN JumpToBest(s1) ELSE s1
  IN Rewards(s2, ms)
CLChoices == {<<>>} \cup {<<m>> : m \in ToSetU(Case.clmoves)}
EnvRw(rec0, cl, jump, ms) ==
  LET r1 == RowRewards(rec0, cl, jump, ms)
      r2 == RowRewards(Case.row2.rec0, IF cl = <<>> THEN <<>> ELSE <<Case.row2.cl>>, jump, Case.row2.moves)
  IN [c \in Chunks |-> [t \in Steps |-> [b \in Rows |->
        RNorm(<<(IF b = 1 THEN r1 ELSE r2)[(c - 1) * NStep + t], Case.grid>>)]]]

InitSrc ==
  \/ /\ Mode = "abs" /\ src = <<>>
     /\ rw \in [Chunks -> [Steps -> [Rows -> {<<v - ROff, 1>> : v \in RVals}]]]
  \/ /\ Mode = "env"
     /\ \E rec0 \in ToSetU(Case.tours), cl \in CLChoices, jump \in BOOLEAN,
           ms \in [1..(NChunks * NStep) -> ToSetU(Case.moves)] :
           /\ src = <<rec0, cl, jump, ms>>
           /\ rw = EnvRw(rec0, cl, jump, ms)
\* two levels only to spread the cases over TLC's workers: the initial states fix the rewards, the single step picks
\* the prescribed critic values and log-ratio exponents; the cases are the states with ready = TRUE
Init == InitSrc /\ V = <<>> /\ Vb = <<>> /\ D = <<>> /\ ready = FALSE
Next == /\ ~ready /\ ready' = TRUE /\ UNCHANGED <<src, rw>>
        /\ V' \in [Epochs -> [Steps -> [Rows -> XVals]]]
        /\ Vb' \in [Epochs -> [Rows -> BVals]]
        /\ D' \in [1..(NEpochs - 1) -> [Steps -> [Rows -> DVals]]]
Spec == Init /\ [][Next]_vars

(* --------------------------------------- the n-step surrogate --------------------------------------- *)
RECURSIVE RPow(_, _)
RPow(q, k) == IF k = 0 THEN RInt(1) ELSE RMul(q, RPow(q, k - 1))
\* the stated n-step return (closed form); Ret(.., NStep + 1, b) is the bootstrap value itself
Ret(c, k, t, b) == RAdd(RSumSeq([j \in 1..(NStep - t + 1) |-> RMul(RPow(Gam, j - 1), rw[c][t + j - 1][b])]),
                        RMul(RPow(Gam, NStep - t + 1), RInt(Vb[k][b])))
Val(k, t, b) == RInt(V[k][t][b])
Adv(c, k, t, b) == RSub(Ret(c, k, t, b), Val(k, t, b))
\* one-step temporal-difference error of epoch k's critic
Delta(c, k, t, b) == RSub(RAdd(rw[c][t][b], RMul(Gam, IF t = NStep THEN RInt(Vb[k][b]) ELSE Val(k, t + 1, b))), Val(k, t, b))
Pow2(d) == IF d >= 0 THEN <<2^d, 1>> ELSE <<1, 2^(0 - d)>>
Rho(k, t, b) == IF k = 1 THEN RInt(1) ELSE Pow2(D[k - 1][t][b] - DOff)
Lo == RSub(RInt(1), Clip)   Hi == RAdd(RInt(1), Clip)
Clamp(q, lo, hi) == IF RLeq(q, lo) THEN lo ELSE IF RLeq(hi, q) THEN hi ELSE q
Unclipped(c, k, t, b) == RMul(Rho(k, t, b), Adv(c, k, t, b))
Clipped(c, k, t, b) == RMul(Clamp(Rho(k, t, b), Lo, Hi), Adv(c, k, t, b))
Active(c, k, t, b) == RLeq(Unclipped(c, k, t, b), Clipped(c, k, t, b))
Term(c, k, t, b) == IF Active(c, k, t, b) THEN Unclipped(c, k, t, b) ELSE Clipped(c, k, t, b)
\* value clipping around the first epoch's prediction
VClip(k, t, b) == RAdd(Val(1, t, b), Clamp(RSub(Val(k, t, b), Val(1, t, b)), Neg(Clip), Clip))
SqU(c, k, t, b) == Sq(RSub(Val(k, t, b), Ret(c, k, t, b)))
SqC(c, k, t, b) == Sq(RSub(VClip(k, t, b), Ret(c, k, t, b)))
VTerm(c, k, t, b) == IF k = 1 \/ RLeq(SqC(c, k, t, b), SqU(c, k, t, b)) THEN SqU(c, k, t, b) ELSE SqC(c, k, t, b)
InRange(k, t, b) == REq(VClip(k, t, b), Val(k, t, b))
Tie(c, k, t, b) == k > 1 /\ ~InRange(k, t, b) /\ REq(SqU(c, k, t, b), SqC(c, k, t, b))

NN == RInt(NStep * NRows)
Cells == [i \in 1..(NStep * NRows) |-> <<((i - 1) \div NRows) + 1, ((i - 1) % NRows) + 1>>]    \* step-major, as torch.stack(..).view(-1, 1)
MeanCells(f(_, _)) == RDiv(RSumSeq([i \in DOMAIN Cells |-> f(Cells[i][1], Cells[i][2])]), NN)
Surrogate(c, k) == LET f(t, b) == Term(c, k, t, b) IN Neg(MeanCells(f))
ValueLoss(c, k) == LET f(t, b) == VTerm(c, k, t, b) IN MeanCells(f)
Loss(c, k) == RAdd(Surrogate(c, k), RMul(Vf, ValueLoss(c, k)))
GradL(c, k, t, b) == IF Active(c, k, t, b) THEN Neg(RDiv(Unclipped(c, k, t, b), NN)) ELSE Zero
GradVU(c, k, t, b) == RDiv(RMul(RMul(RInt(2), Vf), RSub(Val(k, t, b), Ret(c, k, t, b))), NN)
GradV(c, k, t, b) == IF k = 1 \/ InRange(k, t, b) \/ RLeq(SqC(c, k, t, b), SqU(c, k, t, b)) THEN GradVU(c, k, t, b) ELSE Zero

(* ---------------------------------------- algebraic invariants ---------------------------------------- *)
All(P(_, _, _, _)) == \A c \in Chunks, k \in Epochs, t \in Steps, b \in Rows : P(c, k, t, b)
\* n-step return recurrence: Ret[t] = r[t] + g Ret[t+1], closed by the bootstrap value
RetRecurrence == ready => LET P(c, k, t, b) == REq(Ret(c, k, t, b), RAdd(rw[c][t][b], RMul(Gam, Ret(c, k, t + 1, b)))) IN All(P)
RetBootstrap == ready => \A c \in Chunks, k \in Epochs, b \in Rows : REq(Ret(c, k, NStep + 1, b), RInt(Vb[k][b]))
\* telescoping: the n-step advantage is the discounted sum of the one-step TD errors of the same critic
Telescoping == ready => LET P(c, k, t, b) == REq(Adv(c, k, t, b),
                      RSumSeq([j \in 1..(NStep - t + 1) |-> RMul(RPow(Gam, j - 1), Delta(c, k, t + j - 1, b))])) IN All(P)
\* clip bound and pessimism of the policy objective
ClipBound == ready => LET P(c, k, t, b) == /\ (RLeq(Zero, Adv(c, k, t, b)) => RLeq(Term(c, k, t, b), RMul(Hi, Adv(c, k, t, b))))
                                  /\ (RLeq(Adv(c, k, t, b), Zero) => RLeq(Term(c, k, t, b), RMul(Lo, Adv(c, k, t, b))))
                                  /\ RLeq(Term(c, k, t, b), Unclipped(c, k, t, b)) IN All(P)
\* value clipping: the clipped prediction stays within c of the first epoch's and the loss term is the pessimistic (larger) square
ValueClipBound == ready => LET P(c, k, t, b) == /\ RLeq(RSub(Val(1, t, b), Clip), VClip(k, t, b)) /\ RLeq(VClip(k, t, b), RAdd(Val(1, t, b), Clip))
                                       /\ RLeq(SqU(c, k, t, b), VTerm(c, k, t, b)) /\ RLeq(SqC(c, k, t, b), VTerm(c, k, t, b)) IN All(P)
\* the first epoch is on-policy: n-step advantage actor-critic gradient
FirstEpochOnPolicy == ready => \A c \in Chunks, t \in Steps, b \in Rows : REq(GradL(c, 1, t, b), Neg(RDiv(Adv(c, 1, t, b), NN)))
\* mode env: the step reward is the decrease of the best-so-far cost: never negative
EnvRewardNonNeg == (ready /\ Mode = "env") => \A c \in Chunks, t \in Steps, b \in Rows : RLeq(Zero, rw[c][t][b])

Mat(f(_, _)) == [t \in Steps |-> [b \in Rows |-> f(t, b)]]
Out(c, k) == LET gl(t, b) == GradL(c, k, t, b)
                 gv(t, b) == GradV(c, k, t, b)
                 ti(t, b) == Tie(c, k, t, b)
             IN <<Loss(c, k), Mat(gl), Mat(gv), Mat(ti), Surrogate(c, k), ValueLoss(c, k)>>
Emit == ready => PrintT(<<"N", src, rw, V, Vb, D, [c \in Chunks |-> [k \in Epochs |-> Out(c, k)]]>>)
=============================================================================
