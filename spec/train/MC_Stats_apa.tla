----------------------------- MODULE MC_Stats_apa -----------------------------
(* C20, UNBOUNDED -- the warm-up schedule of machine U of Stats.tla (WarmupBaseline.eval + epoch_callback) for ANY warm-up
   length NEp >= 1 and ANY number / interleaving of calls, checked with Apalache as an inductive invariant (mathematical
   integers).  TLC (c20.py) covers NEp = 2..3 and MaxB <= 4..5 calls.

   Abstraction of machine U (scalars only): alpha is the pair (an, ad) -- RNorm is abstracted by what it guarantees (positive
   denominator, non-negative numerator, REq to its argument); of the two baselines only HOW OFTEN each has been advanced is kept
   (cB = Len(seenB), cWB = Len(seenWB)); the values (vb, vwb, ret: exact rational EMA arithmetic) are not kept
   here -- the closed form of the EMA recurrence (EmaExact) is proved for any number of calls in EmaClosed_proofs.tla (TLAPS);
   RetExact (the convex combination) and the Welford machine W stay with TLC.
   The steps contain no quantifier over an infinite set, so MC_Stats_eq.tla can check with TLC that every step of machine U of
   Stats.tla is a step of this machine under the refinement mapping.

   Checks:  Init => Ind ;  Ind /\ Next => Ind' ;  Ind => Concl ;  Ind /\ Next => Act   (Act: action invariants)
     Concl  AlphaExact: alpha = min(1, epoch / NEp);  0 <= alpha <= 1;  alpha = 0 <=> epoch = 0;  alpha = 1 <=> epoch >= NEp;
            the inner baseline is not touched before the first epoch callback (epoch = 0 => cB = 0)
     Act    alpha never decreases; the warm-up baseline is frozen once the warm-up is over (epoch >= NEp => cWB' = cWB);
            an eval advances the inner baseline iff epoch >= 1 and the warm-up baseline iff epoch < NEp                *)
EXTENDS Integers

VARIABLES
  \* @type: Int;
  nEp,
  \* @type: Int;
  epoch,
  \* @type: Int;
  an,
  \* @type: Int;
  ad,
  \* @type: Int;
  cB,
  \* @type: Int;
  cWB

Init == nEp \in Int /\ nEp >= 1 /\ epoch = 0 /\ an = 0 /\ ad = 1 /\ cB = 0 /\ cWB = 0
\* Stats.EvalU(b): alpha = 1 -> only the inner baseline; alpha = 0 -> only the warm-up baseline; otherwise both
EvalU == /\ cB' = (IF an = 0 THEN cB ELSE cB + 1)
         /\ cWB' = (IF an = ad THEN cWB ELSE cWB + 1)
         /\ UNCHANGED <<nEp, epoch, an, ad>>
\* Stats.EpochU: WarmupBaseline.epoch_callback(epoch)
EpochU == /\ IF epoch < nEp
               THEN /\ an' \in Int /\ ad' \in Int /\ ad' > 0 /\ an' >= 0
                    /\ an' * nEp = (epoch + 1) * ad'                   \* alpha' = RNorm(<<epoch + 1, NEp>>)
               ELSE an' = an /\ ad' = ad
          /\ epoch' = epoch + 1
          /\ UNCHANGED <<nEp, cB, cWB>>
Next == EvalU \/ EpochU

\* REq(alpha, IF epoch >= NEp THEN <<1, 1>> ELSE <<epoch, NEp>>)
AlphaExact == IF epoch >= nEp THEN an = ad ELSE an * nEp = epoch * ad
Ind == /\ nEp \in Int /\ epoch \in Int /\ an \in Int /\ ad \in Int /\ cB \in Int /\ cWB \in Int
       /\ nEp >= 1 /\ epoch >= 0 /\ ad > 0 /\ an >= 0 /\ an <= ad /\ cB >= 0 /\ cWB >= 0
       /\ AlphaExact
       /\ epoch = 0 => cB = 0
Concl == Ind => /\ AlphaExact
                /\ 0 * ad <= an * 1 /\ an * 1 <= 1 * ad                \* RLeq(0, alpha) /\ RLeq(alpha, 1)
                /\ (an = 0) <=> (epoch = 0)
                /\ (an = ad) <=> (epoch >= nEp)
                /\ epoch = 0 => cB = 0
Act == /\ an' * ad >= an * ad'                                         \* alpha' >= alpha
       /\ epoch >= nEp => cWB' = cWB
       /\ epoch' = epoch => /\ cB' = (IF epoch >= 1 THEN cB + 1 ELSE cB)
                            /\ cWB' = (IF epoch < nEp THEN cWB + 1 ELSE cWB)
=============================================================================
