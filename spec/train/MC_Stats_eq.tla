----------------------------- MODULE MC_Stats_eq -----------------------------
(* C20, unbounded part -- TLC-checked REFINEMENT: on the bounded scope of C20 every behaviour of machine U of Stats.tla
   (InitU / NextU) is a behaviour of the scalar abstraction MC_Stats_apa.tla that Apalache proves correct for any warm-up
   length and any number of calls.
     RefInit (invariant)  RefStep (action property: EvalU -> EvalU, EpochU -> EpochU)  RefInv (Ind and Concl on mapped states)
   Run with INIT InitU NEXT NextU.                                                                                     *)
EXTENDS Stats

A == INSTANCE MC_Stats_apa WITH nEp <- NEp, epoch <- epoch, an <- alpha[1], ad <- alpha[2],
                                cB <- Len(seenB), cWB <- Len(seenWB)
varsAll == <<varsW, varsE, varsU>>
RefInit == uhist = <<>> => A!Init
RefStep == [][A!Next /\ A!Act]_varsAll
RefInv  == A!Ind /\ A!Concl
=============================================================================
