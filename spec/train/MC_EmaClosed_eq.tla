--------------------------- MODULE MC_EmaClosed_eq ---------------------------
(* C20, unbounded part -- TLC-checked link between Stats.tla (machine E: EmaStep / EmaClosed on exact rationals) and the
   integer-scaled statement that EmaClosed_proofs.tla PROVES for any number of calls (TLAPS).
   For every history TLC reaches (ehist, t = Len(ehist) - 1 calls after the first), with beta = BetaN / BetaD = p / d and the
   batch means scaled to integers  m[j] = L * mean(ehist[j+1])  (L = lcm(1..MaxLen)), the functions Dp, Pp, V, T below are
   built by the recurrences that are the HYPOTHESES of THEOREM EmaClosedForm, and
     Hyp        they do satisfy those hypotheses (on 0..t)
     EqRec      the variable v of Stats.tla (the real recurrence, EmaStep) is V[t] / (L * d^t)
     EqClosed   EmaClosed(Beta, ehist) of Stats.tla is (p^t m[0] + T[t][t]) / (L * d^t)
     ThmInst    the conclusion of the theorem on this instance
   so that EmaExact (v = EmaClosed) for ALL t is the theorem.   Run with INIT InitE NEXT NextE.                          *)
EXTENDS Stats

L == IF MaxLen = 1 THEN 1 ELSE IF MaxLen = 2 THEN 2 ELSE IF MaxLen = 3 THEN 6 ELSE 12
ASSUME MaxLen \in 1..4
P == BetaN
D == BetaD
Dp[t \in 0..MaxB] == IF t = 0 THEN 1 ELSE D * Dp[t - 1]
Pp[t \in 0..MaxB] == IF t = 0 THEN 1 ELSE P * Pp[t - 1]
MI(h) == [j \in 0..(Len(h) - 1) |-> (L * ISum(h[j + 1])) \div Len(h[j + 1])]
VOf(m, n) == LET W[t \in 0..n] == IF t = 0 THEN m[0] ELSE P * W[t - 1] + (D - P) * Dp[t - 1] * m[t] IN W
TOf(m, n) == LET U[t \in 0..n, k \in 0..n] ==
                    IF k = 0 \/ k > t THEN 0 ELSE U[t, k - 1] + (D - P) * Pp[t - k] * Dp[k - 1] * m[k] IN U

Hyp == ehist # <<>> =>
   LET n == Len(ehist) - 1  m == MI(ehist)  V == VOf(m, n)  T == TOf(m, n) IN
   /\ \A j \in 0..n : m[j] * Len(ehist[j + 1]) = L * ISum(ehist[j + 1])             \* the scaling is exact
   /\ Dp[0] = 1 /\ \A t \in 0..(n - 1) : Dp[t + 1] = D * Dp[t]
   /\ Pp[0] = 1 /\ \A t \in 0..(n - 1) : Pp[t + 1] = P * Pp[t]
   /\ V[0] = m[0] /\ \A t \in 0..(n - 1) : V[t + 1] = P * V[t] + (D - P) * Dp[t] * m[t + 1]
   /\ \A t \in 0..n : T[t, 0] = 0
   /\ \A t \in 0..n : \A k \in 0..(n - 1) : k < t => T[t, k + 1] = T[t, k] + (D - P) * Pp[t - (k + 1)] * Dp[k] * m[k + 1]
EqRec == ehist # <<>> => LET n == Len(ehist) - 1 IN REq(v, <<VOf(MI(ehist), n)[n], L * Dp[n]>>)
EqClosed == ehist # <<>> => LET n == Len(ehist) - 1  m == MI(ehist) IN
   REq(EmaClosed(Beta, ehist), <<Pp[n] * m[0] + TOf(m, n)[n, n], L * Dp[n]>>)
ThmInst == ehist # <<>> => LET n == Len(ehist) - 1  m == MI(ehist) IN VOf(m, n)[n] = Pp[n] * m[0] + TOf(m, n)[n, n]
=============================================================================
