------------------------------ MODULE GenTrace ------------------------------
(* C18 on RECORDED outputs of the real rl4co generators.
   One ndjson record = one generated instance (integer-scaled, see Generators.tla) together with
   the configuration it was requested with and the outcome of ONE uniformly random
   mask-confined episode of the real environment started from it:
       crashed   the generator (or env.reset) raised on this -- valid -- configuration
                 (then no other field is looked at)
       roll      [ran, done, dead, raised, hang, steps, cap, minmask]
                 ran     an episode was run for this record
                 done    the episode reached done within `cap` steps
                 dead    a row that was not done was offered an all-False mask
                 raised  env.step raised inside rl4co during the episode
                 hang    a step did not return within the wall-clock guard
   Monitors never halt TLC: they print <<"FAIL", tid, clause>>, and <<"END", tid>> when consumed. *)
EXTENDS Generators, TLC, Json, IOUtils

Recs == ndJsonDeserialize(IOEnv.TRACE_FILE)
VARIABLE tid
Init == tid \in 1..Len(Recs)
Next == UNCHANGED tid
Spec == Init /\ [][Next]_tid
R == Recs[tid]
Fail(c) == PrintT(<<"FAIL", tid, c>>)

\* a generator must not raise on a valid configuration
M_Crash    == R.crashed => Fail("generator-raised")
\* every clause of the family's contract (Generators!ClausesOf)
M_Contract == ~R.crashed => LET cl == ClausesOf(R) IN \A i \in DOMAIN cl : cl[i][2] \/ Fail(cl[i][1])
\* "every generated instance is solvable: a mask-confined episode started from it always completes"
M_Solvable == (~R.crashed /\ R.roll.ran) =>
                 /\ R.roll.raised => Fail("episode-raised")
                 /\ R.roll.hang => Fail("episode-hangs")
                 /\ R.roll.dead => Fail("dead-end")
                 /\ (~R.roll.done /\ ~R.roll.dead /\ ~R.roll.raised /\ ~R.roll.hang) => Fail("not-completed")
End == PrintT(<<"END", tid>>)
=============================================================================
