---------------------------- MODULE RoutingTrace ----------------------------
(* C17 / C19 -- the data routing property (RoutingOps.tla) on executions RECORDED FROM THE REAL CODE: real environments
   (data files written with rl4co.data.utils.save_tensordict_to_npz, tagging generator) + real RL4COLitModule subclass,
   driven by the harness (setup / *_dataloader / log_metrics / on_train_epoch_end) or by a real RL4COTrainer.fit +
   trainer.test observed through a Lightning callback.
   One ndjson record per run:  c = the configuration (as in RoutingOps), ev = sequence of events
     [a |-> "load", p, run, ep, loaders |-> seq of [name, bs, batches]]    one pass over the loaders phase p got
          batches[j][i] = <<kind, id, idx, same>>: the instance is the idx-th of file `id` (kind "file") / of the id-th
          generated data set (kind "gen") / unrecognisable (kind "other"); same = every key of the delivered instance
          equals what was saved in / generated for that slot (dtype, shape, value; CVRP demand normalised by capacity)
          run = how many times setup() had run, ep = training epoch
     [a |-> "keys", p, mode |-> "direct" | "trainer", keys]   metric keys per loader index (direct: log_metrics called
          with the loader index; trainer: what RL4COTrainer logged)
   Failing clauses print <<"FAIL", tid, clause, l>>; nothing halts TLC.                                              *)
EXTENDS RoutingOps, Json, IOUtils

Traces == ndJsonDeserialize(IOEnv.TRACE_FILE)
VARIABLES tid, l
vars == <<tid, l>>
Tr == Traces[tid]
c == Tr.c
Init == tid \in 1..Len(Traces) /\ l = 0
Next == l < Len(Tr.ev) /\ l' = l + 1 /\ UNCHANGED tid
Spec == Init /\ [][Next]_vars

Fail(cl) == PrintT(<<"FAIL", tid, cl, l>>)
Cur == Tr.ev[l]
IsLoad == l > 0 /\ Cur.a = "load"
IsKeys == l > 0 /\ Cur.a = "keys"
P == Cur.p
LItems(ld) == Flat(ld.batches)
Idx(ld) == [i \in 1..Len(LItems(ld)) |-> LItems(ld)[i][3]]
Lds == Cur.loaders
GenIdsOf(ld) == {LItems(ld)[i][2] : i \in {i \in DOMAIN LItems(ld) : LItems(ld)[i][1] = "gen"}}
GenIds(e) == UNION {GenIdsOf(e.loaders[k]) : k \in DOMAIN e.loaders}

\* PhaseOwnSource: only instances of one of the phase's own files, or else generator instances
OwnOK(it) == IF FromFile(c, P) THEN it[1] = "file" /\ \E j \in DOMAIN c.file[P].fs : it[2] = c.file[P].fs[j]
             ELSE it[1] = "gen"
M_Source == (IsLoad /\ \E k \in DOMAIN Lds : \E i \in DOMAIN LItems(Lds[k]) : ~OwnOK(LItems(Lds[k])[i]))
              => Fail("phase-own-source")
\* ListOrder: one loader per listed file, k-th loader = k-th file, instances in source order unless a shuffled train loader
M_ListOrder == (IsLoad /\ ~(/\ Len(Lds) = NLoaders(c, P)
                            /\ \A k \in DOMAIN Lds :
                                 /\ FromFile(c, P) => \A i \in DOMAIN LItems(Lds[k]) :
                                                         LItems(Lds[k])[i][1] = "file" => LItems(Lds[k])[i][2] = WantFile(c, P, k)
                                 /\ Ordered(c, P) => Idx(Lds[k]) = Ident(Len(Idx(Lds[k])))))
                 => Fail("list-order")
\* NamesAligned
M_Names == /\ (IsLoad /\ \E k \in DOMAIN Lds : k <= NLoaders(c, P) /\ Lds[k].name # WantName(c, P, k)) => Fail("names-aligned")
           /\ (IsKeys /\ ~(/\ Len(Cur.keys) = NLoaders(c, P)
                           /\ \A k \in DOMAIN Cur.keys :
                                Cur.keys[k] = IF Cur.mode = "direct" \/ NLoaders(c, P) > 1 THEN WantKey(c, P, k) ELSE KeyOf(P, "")))
                 => Fail("names-aligned")
\* BatchSizeFallback
M_Batch == (IsLoad /\ \E k \in DOMAIN Lds : ~(Lds[k].bs = BatchSize(c, P) /\ ChunksOK(Lds[k].batches, BatchSize(c, P))))
              => Fail("batch-size-fallback")
\* SizesHonoured: every instance of the source exactly once
M_Sizes == (IsLoad /\ \E k \in DOMAIN Lds : k <= NLoaders(c, P) /\ ~IsPermOf(Idx(Lds[k]), WantCount(c, P, k)))
              => Fail("sizes-honoured")
\* NoCrossPhase: a generated data set feeds one loader of one phase of one run (and, for training, one epoch)
M_NoCross == (IsLoad /\ (\/ \E k \in DOMAIN Lds : Cardinality(GenIdsOf(Lds[k])) > 1
                         \/ \E j \in 1..(l - 1) : /\ Tr.ev[j].a = "load"
                                                   /\ GenIds(Tr.ev[j]) \cap GenIds(Cur) # {}
                                                   /\ ~(/\ Tr.ev[j].p = P /\ Tr.ev[j].run = Cur.run
                                                        /\ (P = "train" => Tr.ev[j].ep = Cur.ep))))
              => Fail("no-cross-phase")
\* C19: what a phase reads from a file is what was saved (every key of every instance)
M_Content == (IsLoad /\ \E k \in DOMAIN Lds : \E i \in DOMAIN LItems(Lds[k]) : ~LItems(Lds[k])[i][4]) => Fail("file-content")
End == (l = Len(Tr.ev)) => PrintT(<<"END", tid>>)
=============================================================================
