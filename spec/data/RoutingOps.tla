----------------------------- MODULE RoutingOps -----------------------------
(* C17 / C19 -- DATA ROUTING of a training / evaluation run, PROPERTY SIDE (no rl4co identifiers, no variables):
   which instances must feed which phase, as a function of the configuration alone.  Used by Routing.tla (invariants of
   the code-shaped machine) and by RoutingTrace.tla (monitors over recorded real executions).

   Configuration c (a record):
     file[p]   p in {"train","val","test"}: [kind |-> "none" | "single" | "list", fs |-> sequence of file ids]
               (none: no file configured, fresh generator instances; single: ONE file name; list: a LIST of 1..2 names;
                the training phase takes none / single only)
     given[p]  TRUE iff loader names were configured for the phase (GivenNames(p)), else default names "0","1",..
     size[p]   configured data size of the phase (train_data_size / val_data_size / test_data_size)
     bs[p]     configured batch size, 0 = None (fall back: val <- train, test <- val)
     shuffle   shuffle_train_dataloader
   An INSTANCE is identified by <<"file", f, i>> (i-th instance saved in file f, 1 <= i <= FSize(f)) or <<"gen", g, i>>
   (i-th instance of the g-th data set the generator produced).  File f holds FSize(f) = f + 1 instances.               *)
EXTENDS Naturals, Sequences, FiniteSets, TLC

Phases == {"train", "val", "test"}
FSize(f) == f + 1
GivenNames(p) == IF p = "val" THEN <<"va", "vb">> ELSE <<"ta", "tb">>
Metric == "reward"

RECURSIVE Flat(_)
Flat(s) == IF s = <<>> THEN <<>> ELSE Head(s) \o Flat(Tail(s))
Ident(n) == [i \in 1..n |-> i]
IsPermOf(s, n) == Len(s) = n /\ {s[i] : i \in DOMAIN s} = 1..n

(* ---- what the configuration demands ---- *)
\* batch size in force: own value, else the documented fall-back chain  test <- val <- train
BatchSize(c, p) == CASE p = "train" -> c.bs.train
                     [] p = "val"   -> IF c.bs.val # 0 THEN c.bs.val ELSE c.bs.train
                     [] p = "test"  -> IF c.bs.test # 0 THEN c.bs.test ELSE IF c.bs.val # 0 THEN c.bs.val ELSE c.bs.train
\* one data set and one loader per listed file; one otherwise
NLoaders(c, p) == IF c.file[p].kind = "list" THEN Len(c.file[p].fs) ELSE 1
Named(c, p) == c.file[p].kind = "list"
WantName(c, p, k) == IF ~Named(c, p) THEN "" ELSE IF c.given[p] THEN GivenNames(p)[k] ELSE ToString(k - 1)
\* metric key of loader k: <phase>/<metric>/<name of the loader> ; no name part when the phase has ONE unnamed loader
KeyOf(p, nm) == IF nm = "" THEN p \o "/" \o Metric ELSE p \o "/" \o Metric \o "/" \o nm
WantKey(c, p, k) == KeyOf(p, WantName(c, p, k))
\* the source loader k of phase p must read: the k-th configured file, or a generator data set (kind only)
FromFile(c, p) == c.file[p].kind # "none"
WantFile(c, p, k) == c.file[p].fs[k]
\* number of instances: all instances of the file, or the configured size of THIS phase
WantCount(c, p, k) == IF FromFile(c, p) THEN FSize(WantFile(c, p, k)) ELSE c.size[p]
\* instance order: file / generation order, except for a shuffled training loader
Ordered(c, p) == ~(p = "train" /\ c.shuffle)
\* batch boundaries: consecutive full batches, the last one possibly partial, none empty
ChunksOK(batches, b) == \A j \in DOMAIN batches :
                           /\ Len(batches[j]) >= 1
                           /\ Len(batches[j]) = b \/ (j = Len(batches) /\ Len(batches[j]) < b)
=============================================================================
