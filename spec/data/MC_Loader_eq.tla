----------------------------- MODULE MC_Loader_eq -----------------------------
(* C17, unbounded part -- TLC-checked REFINEMENT: on the bounded scope of C17 every behaviour of Loader.tla is, for EVERY
   watched position w, a behaviour of the pointwise abstraction (machine P of MC_Loader_apa.tla) that Apalache proves correct
   for all n, b, e.  This is what keeps the abstraction and Loader.tla from drifting apart.

     RefInit   (invariant)        the initial states map to InitP
     RefStep   (action property)  every NextBatch maps to StepP, for every w
     RefInv    (invariant)        the inductive invariant IndInvP holds on the mapped reachable states
     EqEval    (ASSUME)           Loader.EvalChunks unfolds exactly as machine E steps (ChunkLen, FX), Rollout = Flat of it
   Run with SPECIFICATION Spec of Loader.tla.                                                                          *)
EXTENDS Loader

\* where position w of the concatenation sits, read off the STRUCTURE of `batches` (no arithmetic on b)
Before(k) == Len(Flat(SubSeq(batches, 1, k - 1)))
BatchOf(w) == IF w <= pos THEN CHOOSE k \in DOMAIN batches : Before(k) < w /\ w <= Before(k) + Len(batches[k]) ELSE 0
A(w) == INSTANCE MC_Loader_apa WITH
           n <- n, b <- b, pos <- pos, nb <- Len(batches),
           g  <- IF w <= pos THEN w ELSE 0,
           tg <- IF w <= pos THEN Flat(batches)[w][1] ELSE 0,
           pg <- IF w <= pos THEN perm[w] ELSE 0,
           ex <- IF w <= pos THEN Flat(batches)[w][2] ELSE 0,
           kb <- BatchOf(w),
           sl <- IF w <= pos THEN w - Before(BatchOf(w)) ELSE 0,
           sz <- IF w <= pos THEN Len(batches[BatchOf(w)]) ELSE 0,
           e <- 0, from <- 0, len <- 0, h <- 0, hv <- 0

RefInit == pos = 0 => \A w \in 1..MaxN : A(w)!InitP
RefStep == [][\A w \in 1..MaxN : A(w)!StepP]_vars
RefInv  == \A w \in 1..MaxN : A(w)!IndInvP /\ A(w)!ConclP /\ Len(Flat(batches)) = pos

EqEval == \A k \in 1..MaxN : \A ee \in 1..(MaxN + 1) :
             /\ \A fr \in 1..k : EvalChunks(k, fr, ee) =
                   <<[i \in 1..A(1)!ChunkLen(k, ee, fr) |-> A(1)!FX(fr + i - 1)]>> \o EvalChunks(k, fr + ee, ee)
             /\ \A fr \in (k + 1)..(k + ee) : EvalChunks(k, fr, ee) = <<>>
             /\ Rollout(k, ee) = Flat(EvalChunks(k, 1, ee))
             /\ \A t \in 1..k : A(1)!FX(t) = F(t)
ASSUME EqEval
=============================================================================
