------------------------------- MODULE Persist -------------------------------
(* C19 -- persistence round trips as BEHAVIOURAL EQUIVALENCE.

   Two synchronised copies of one "masked episode" machine run side by side:
     o  the ORIGINAL object (instance in memory, environment as constructed),
     r  the RESTORED object (what comes back from disk / deepcopy / pickle).
   The machine itself is a parameter (EInit, EMask, EStep, EDone, EReward): the
   wrapper spec/common/Persist.tla.tmpl plugs in PART 2 of an environment module of
   spec/env (CVRP, TSP, FJSP, JSSP ...), so the expectations TLC prints are those of
   the code-shaped model of the real environment.

   What a round trip may do to the ABSTRACT instance (codec):
     same   every lossless carrier: copy.deepcopy / pickle of environment and
            instance, save_tensordict_to_npz + load_npz_to_tensordict, a dataset file
            in the generate_data format read by the environment's load_data (raw
            integer demands + capacity on disk, normalised ONCE by the loader: the
            abstract instance [dem, cap] is untouched).  Restored = original.
     text   FJSP / JSSP instance files: only the real operations are written (positive
            integer durations of the eligible machines); the reader pads every instance
            of a directory to the largest number of operations found there.  Restored =
            original with the padded columns dropped and zero columns appended up to
            `pad` columns, for every pad target NOps..P+1 (more padding than the original
            had is as harmless as less).
   Next: both copies take the same action, one that the ORIGINAL offers.
   Invariants (the clauses of C19): same instance content up to padding, same mask,
   same done flag at every step, same reward at the end, same forced ("greedy")
   solutions: the rollouts of the deterministic lowest / highest admitted action
   policies coincide.  Every reachable state of the RESTORED copy is printed so that
   the harness can replay the behaviours into the real restored objects.          *)
EXTENDS Naturals, Sequences, FiniteSets, TLC

CONSTANTS PFamily,                 \* set of integer instances (records with an `id`)
          PCap,                    \* fuel of the forced rollouts
          PFault,                  \* "none"; "lossy" = a deliberately wrong codec (self-test: the clauses must fail)
          EInit(_), EMask(_, _), EStep(_, _, _), EDone(_, _), EReward(_, _, _)

VARIABLES inst, codec, o, r, hist
pvars == <<inst, codec, o, r, hist>>

(* ------------------------------ codecs --------------------------------- *)
RECURSIVE PSum(_)
PSum(s) == IF s = <<>> THEN 0 ELSE Head(s) + PSum(Tail(s))

\* scheduling instances carry a machine x column matrix `pt` whose columns beyond the
\* real operations are padding (spec/env/FJSP.tla)
PIsSched(i) == {"pt", "nops", "P", "M"} \subseteq DOMAIN i
PNOps(i)    == PSum(i.nops)

\* the text writer keeps the real columns, the reader appends zero columns up to k
PRepad(i, k) == [i EXCEPT !.P = k,
                          !.pt = [m \in 1..i.M |-> [p \in 1..k |-> IF p <= PNOps(i) THEN i.pt[m][p] ELSE 0]]]

PCodecs(i) == {[kind |-> "same", pad |-> 0]}
              \cup (IF PIsSched(i) THEN {[kind |-> "text", pad |-> k] : k \in PNOps(i)..(i.P + 1)} ELSE {})

\* self-test codecs: the text reader loses the last real operation's durations; the lossless
\* carrier rescales a capacity-type field (a normalisation applied once too often)
PLossy(i, c) == IF c.kind = "text"
                  THEN [PRepad(i, c.pad) EXCEPT !.pt = [m \in 1..i.M |-> [p \in 1..c.pad |->
                                                   IF p < PNOps(i) THEN i.pt[m][p] ELSE 0]]]
                  ELSE IF "cap" \in DOMAIN i THEN [i EXCEPT !.cap = i.cap + 1] ELSE i

PRestored(i, c) == IF PFault = "lossy" THEN PLossy(i, c)
                   ELSE IF c.kind = "text" THEN PRepad(i, c.pad) ELSE i

\* instance content up to padding: the padded columns are not part of the instance
PContent(i) == IF PIsSched(i) THEN PRepad(i, PNOps(i)) ELSE i

RI == PRestored(inst, codec)

(* ----------------------------- the machine ----------------------------- *)
PInit == /\ inst \in PFamily
         /\ codec \in PCodecs(inst)
         /\ o = EInit(inst)
         /\ r = EInit(PRestored(inst, codec))
         /\ hist = <<>>

PNext == /\ ~EDone(inst, o)
         /\ \E a \in EMask(inst, o) :               \* an action the ORIGINAL offers
               /\ o' = EStep(inst, o, a)
               /\ r' = EStep(RI, r, a)              \* the restored copy takes the same action
               /\ hist' = Append(hist, a)
         /\ UNCHANGED <<inst, codec>>

PSpec == PInit /\ [][PNext]_pvars

(* --------------------------- forced rollouts --------------------------- *)
PLeast(S) == CHOOSE x \in S : \A y \in S : x <= y
PMost(S)  == CHOOSE x \in S : \A y \in S : x >= y

RECURSIVE PRoll(_, _, _, _, _)
PRoll(i, s, h, hi, fuel) ==
  IF EDone(i, s) \/ EMask(i, s) = {} \/ fuel = 0 THEN [s |-> s, h |-> h]
  ELSE LET a == IF hi THEN PMost(EMask(i, s)) ELSE PLeast(EMask(i, s))
       IN PRoll(i, EStep(i, s, a), Append(h, a), hi, fuel - 1)

PSol(i, hi) == LET e == PRoll(i, EInit(i), <<>>, hi, PCap)
               IN <<e.h, EDone(i, e.s), IF EDone(i, e.s) THEN EReward(i, e.s, e.h) ELSE 0>>

(* ------------------------- the clauses of C19 -------------------------- *)
ContentEq == PContent(RI) = PContent(inst)
MaskEq    == EMask(RI, r) = EMask(inst, o)
DoneEq    == EDone(RI, r) = EDone(inst, o)
RewardEq  == EDone(inst, o) => EReward(RI, r, hist) = EReward(inst, o, hist)
GreedyEq  == hist = <<>> => (PSol(RI, FALSE) = PSol(inst, FALSE) /\ PSol(RI, TRUE) = PSol(inst, TRUE))

(* ------------------------ export for the replay ------------------------ *)
RECURSIVE PSorted(_)
PSorted(S) == IF S = {} THEN <<>> ELSE LET x == PLeast(S) IN <<x>> \o PSorted(S \ {x})
\* every state of the RESTORED copy: its mask and done flag after `hist`
EmitS == PrintT(<<"S", inst.id, codec.kind, codec.pad, hist, PSorted(EMask(RI, r)), EDone(RI, r)>>)
\* terminal behaviours with the reward the restored object must report
EmitT == EDone(inst, o) => PrintT(<<"T", inst.id, codec.kind, codec.pad, hist, EReward(RI, r, hist)>>)
\* forced solutions of the restored instance
EmitG == hist = <<>> => PrintT(<<"G", inst.id, codec.kind, codec.pad, PSol(RI, FALSE), PSol(RI, TRUE)>>)
=============================================================================
