---------------------------- MODULE MC_Loader_apa ----------------------------
(* C17, UNBOUNDED -- the loader pass of Loader.tla for ALL dataset sizes n >= 1, ALL batch sizes b >= 1 and ALL evaluation
   batch sizes e >= 1, checked with Apalache (mathematical integers; n, b, e are unconstrained integer variables).  TLC (c17.py)
   covers n <= MaxN (4..6).

   Method (as MC_Layout_apa.tla): sequences of symbolic length are abstracted POINTWISE.  Machine P is the pass of
   Loader.tla (Init / NextBatch) in which the state keeps, instead of `batches`, the bookkeeping integers (pos, number of
   batches nb) and ONE arbitrary delivered element: its position g in the concatenation of the batches delivered so far, the
   tag tg and extra ex that arrived there, the loader order's item pg = perm[g] for that position, the batch kb / slot sl it
   arrived in and that batch's size sz  (g = 0: nothing watched yet).  Machine E is RolloutBaseline.rollout
   (Loader.EvalChunks / Rollout): evaluation batches of size e in dataset order, concatenated; it keeps the length of the
   concatenation and one arbitrary element (position h, value hv).

   The steps are written without quantifiers over infinite sets ("x' \in Int /\ constraint"), so that TLC can evaluate them
   on a GIVEN pair of states: MC_Loader_eq.tla checks with TLC, on the bounded scope of C17, that every step of Loader.tla is a
   step of machine P under the obvious refinement mapping FOR EVERY watched position (so the abstraction cannot drift away
   from Loader.tla), and that EvalChunks unfolds as machine E steps.

   Checks (harness/props/unbounded.py):
     machine P   InitP => IndInvP ; IndInvP /\ StepP => IndInvP' ; IndInvP => ConclP
                   ConclP = Exactly (every position 1..n delivered exactly once: the concatenation has length pos, reaches n and
                   stops; position g carries perm[g]), ExtraIsOwn (ex = F(tg)), Sizes (all batches full but possibly the last),
                   Progress (a step is enabled iff pos < n; ceil(n/b) batches in total)
     machine E   InitE => IndInvE ; IndInvE /\ StepE => IndInvE' ; IndInvE => ConclE
                   ConclE = whatever e is: the concatenation has length n and element h is F(h)  (extraOf = [i |-> F(i)])   *)
EXTENDS Integers

VARIABLES
  \* @type: Int;
  n,
  \* @type: Int;
  b,
  \* @type: Int;
  pos,    \* items delivered so far (= length of the concatenation of the delivered batches)
  \* @type: Int;
  nb,     \* batches delivered so far
  \* @type: Int;
  g,      \* watched position in the concatenation (0: none yet)
  \* @type: Int;
  tg,     \* tag delivered at position g
  \* @type: Int;
  pg,     \* perm[g]
  \* @type: Int;
  ex,     \* extra delivered at position g
  \* @type: Int;
  kb,     \* number of the batch that holds position g
  \* @type: Int;
  sl,     \* slot of position g inside that batch
  \* @type: Int;
  sz,     \* size of that batch
  \* @type: Int;
  e,      \* machine E: evaluation batch size
  \* @type: Int;
  from,   \* first item of the next evaluation batch
  \* @type: Int;
  len,    \* length of the concatenated results so far
  \* @type: Int;
  h,      \* watched position of the concatenation (0: none yet)
  \* @type: Int;
  hv      \* value at position h

FX(tag) == 10 * tag + 1                                 \* F of Loader.tla
MinI(x, y) == IF x <= y THEN x ELSE y
\* size of the batch that starts at item `start` (1-based) of a set of nn items, nominal batch size `size`
ChunkLen(nn, size, start) == MinI(size, nn - start + 1)

\* @type: <<Int, Int, Int, Int, Int, Int, Int>>;
watch == <<g, tg, pg, ex, kb, sl, sz>>
\* @type: <<Int, Int, Int, Int, Int>>;
varsE == <<e, from, len, h, hv>>
\* @type: <<Int, Int, Int, Int>>;
varsP0 == <<n, b, pos, nb>>

(* ---------------------------------------------------- machine P ---------------------------------------------------- *)
InitP == /\ n \in Int /\ n >= 1 /\ b \in Int /\ b >= 1 /\ pos = 0 /\ nb = 0
         /\ g = 0 /\ tg = 0 /\ pg = 0 /\ ex = 0 /\ kb = 0 /\ sl = 0 /\ sz = 0
         /\ e = 0 /\ from = 0 /\ len = 0 /\ h = 0 /\ hv = 0
\* Loader.NextBatch: the next ChunkLen items in loader order; position pos + i receives item perm[pos + i] with
\* extraOf[perm[pos + i]], and extraOf = [t |-> F(t)] (machine E)
StepP == /\ pos < n
         /\ LET k == ChunkLen(n, b, pos + 1) IN
              /\ pos' = pos + k /\ nb' = nb + 1
              /\ \/ UNCHANGED watch                                   \* keep watching the same element
                 \/ /\ g = 0                                          \* or start watching one of the new ones
                    /\ g' \in Int /\ g' > pos /\ g' <= pos + k
                    /\ pg' \in Int /\ pg' >= 1 /\ pg' <= n            \* perm[g'], whatever the order is
                    /\ tg' = pg' /\ ex' = FX(pg')
                    /\ kb' = nb + 1 /\ sl' = g' - pos /\ sz' = k
         /\ UNCHANGED <<n, b, varsE>>
IndInvP == /\ n \in Int /\ b \in Int /\ pos \in Int /\ nb \in Int /\ g \in Int /\ tg \in Int /\ pg \in Int
           /\ ex \in Int /\ kb \in Int /\ sl \in Int /\ sz \in Int
           /\ e = 0 /\ from = 0 /\ len = 0 /\ h = 0 /\ hv = 0
           /\ n >= 1 /\ b >= 1 /\ pos >= 0 /\ pos <= n /\ nb >= 0
           /\ \/ pos = nb * b                                          \* only full batches so far
              \/ pos = n /\ (nb - 1) * b < n /\ n < nb * b             \* the last one was partial
           /\ \/ g = 0
              \/ /\ g >= 1 /\ g <= pos /\ kb >= 1 /\ kb <= nb /\ sl >= 1 /\ sl <= sz
                 /\ g = (kb - 1) * b + sl                              \* batches are consecutive stretches of the order
                 /\ tg = pg /\ pg >= 1 /\ pg <= n /\ ex = FX(tg)
                 /\ \/ sz = b
                    \/ kb = nb /\ pos = n /\ sz = n - (kb - 1) * b /\ sz >= 1 /\ sz < b
\* the next batch is non-empty and stays inside the dataset (ENABLED is not available in Apalache: spelled out)
StepOK == ChunkLen(n, b, pos + 1) >= 1 /\ pos + ChunkLen(n, b, pos + 1) <= n
ConclP == IndInvP =>
   /\ g # 0 => /\ tg = pg                     \* Exactly: Tags[g] = perm[g]  (with Len(Tags) = pos, and Done <=> pos = n)
               /\ ex = FX(tg)                 \* ExtraIsOwn
               /\ sz = b \/ (kb = nb /\ pos = n /\ sz = n - (kb - 1) * b)            \* Sizes
               /\ kb = ((g - 1) \div b) + 1 /\ sl = ((g - 1) % b) + 1                \* position <-> (batch, slot)
   /\ pos < n => StepOK                                                              \* progress without overshoot until Done
   /\ pos = n => ((nb - 1) * b < n /\ n <= nb * b)                                    \* ceil(n / b) batches

(* ---------------------------------------------------- machine E ---------------------------------------------------- *)
InitE == /\ n \in Int /\ n >= 1 /\ e \in Int /\ e >= 1 /\ from = 1 /\ len = 0 /\ h = 0 /\ hv = 0
         /\ b = 0 /\ pos = 0 /\ nb = 0 /\ g = 0 /\ tg = 0 /\ pg = 0 /\ ex = 0 /\ kb = 0 /\ sl = 0 /\ sz = 0
\* one unfolding of Loader.EvalChunks(n, from, e): chunk [i \in 1..k |-> F(from + i - 1)] is appended, recursion at from + e
StepE == /\ from <= n
         /\ LET k == ChunkLen(n, e, from) IN
              /\ from' = from + e /\ len' = len + k
              /\ \/ UNCHANGED <<h, hv>>
                 \/ /\ h = 0 /\ h' \in Int /\ h' > len /\ h' <= len + k
                    /\ hv' = FX(from + (h' - len) - 1)
         /\ UNCHANGED <<n, e, b, pos, nb, watch>>
IndInvE == /\ n \in Int /\ e \in Int /\ from \in Int /\ len \in Int /\ h \in Int /\ hv \in Int
           /\ b = 0 /\ pos = 0 /\ nb = 0 /\ g = 0 /\ tg = 0 /\ pg = 0 /\ ex = 0 /\ kb = 0 /\ sl = 0 /\ sz = 0
           /\ n >= 1 /\ e >= 1 /\ from >= 1
           /\ len = MinI(from - 1, n)
           /\ h = 0 \/ (h >= 1 /\ h <= len /\ hv = FX(h))
ConclE == IndInvE => /\ from > n => len = n           \* Len(Rollout(n, e)) = n
                     /\ h # 0 => hv = FX(h)           \* Rollout(n, e)[h] = F(h), whatever e is
=============================================================================
