------------------------------- MODULE Routing -------------------------------
(* C17 / C19 -- DATA ROUTING of a training / evaluation run of rl4co: which instances feed which phase.
   PART 1 (RoutingOps.tla + the invariants below) is the property: every phase gets exactly the instances of ITS source --
   the file configured for that phase (a LIST of files gives one data set and one loader per file, in list order, named as
   configured, metric keys carrying that name) or else fresh generator instances of the configured size -- with the
   configured batch size (fall-backs val <- train, test <- val), unshuffled for val / test, never another phase's instances.
   PART 2 is a code-shaped machine, one action per public call, transcribed from
     rl4co/envs/common/base.py      RL4COEnvBase.__init__ (get_files, get_multiple_dataloader_names), dataset(), load_data
     rl4co/models/rl/common/base.py RL4COLitModule.setup, train/val/test_dataloader, _dataloader, log_metrics,
                                    on_train_epoch_end
   in the order Lightning issues the calls:  setup -> val_dataloader -> validation steps (log_metrics) ->
   train_dataloader -> on_train_epoch_end (regeneration unless last epoch) -> train_dataloader ... -> test_dataloader ->
   test steps (log_metrics).
   Named quirks of the code the machine carries:
     SharedNames      `dataloader_names` is ONE attribute of the module, overwritten by whichever of val_dataloader /
                      test_dataloader was called last with a LIST; keys are right because Lightning requests the loaders of
                      a phase immediately before the steps of that phase (Log(p) is only enabled right after Load(p)).
     SingleListNoIdx  Lightning passes dataloader_idx to the step only when a phase has MORE THAN ONE loader, so a list of
                      one file logs the un-named key <phase>/reward (`keys[p].trainer`); a direct call with the index gives
                      the named key (`keys[p].direct`).
     SizeIgnoredForFiles  load_data ignores the requested size: a file-backed phase gets ALL instances of the file.       *)
EXTENDS RoutingOps

CONSTANTS Files,                 \* file ids, e.g. {1, 2}
          NTrain, NVal, NTest,   \* configured data sizes (pairwise different, so that a swapped size shows)
          BTrain, BVals, BTests, \* batch_size; candidate val / test batch sizes (0 = None)
          MaxEpochs

VARIABLES c,        \* the configuration (chosen in Init, never changed)
          pc, ep,
          gcount,   \* how many data sets the generator has produced
          ds,       \* module.train_dataset / val_dataset / test_dataset: [dict |-> BOOLEAN, sets |-> seq of [name, src, n]]
          bsz,      \* module.train_batch_size / val_batch_size / test_batch_size after setup()
          dlNames,  \* module.dataloader_names (<<>> = None)
          last,     \* phase whose loaders were requested last
          route,    \* route[p] = loaders the phase got at its last *_dataloader() call: seq of [name, bs, src, ordered, batches]
          hist,     \* route["train"] of every epoch so far
          keys      \* keys[p] = [direct |-> seq, trainer |-> seq] metric keys per loader index (<<>> until logged)
vars == <<c, pc, ep, gcount, ds, bsz, dlNames, last, route, hist, keys>>

NoFile == [kind |-> "none", fs |-> <<>>]
Singles == {[kind |-> "single", fs |-> <<f>>] : f \in Files}
Lists == {[kind |-> "list", fs |-> s] : s \in {<<f>> : f \in Files} \cup {<<f, g>> : f, g \in Files}}
Configs == {[file |-> [train |-> tf, val |-> vf, test |-> sf],
             given |-> [train |-> FALSE, val |-> vg, test |-> sg],
             size |-> [train |-> NTrain, val |-> NVal, test |-> NTest],
             bs |-> [train |-> BTrain, val |-> bv, test |-> bt],
             shuffle |-> sh] :
              tf \in {NoFile} \cup Singles, vf \in {NoFile} \cup Singles \cup Lists, sf \in {NoFile} \cup Singles \cup Lists,
              vg \in BOOLEAN, sg \in BOOLEAN, bv \in BVals, bt \in BTests, sh \in BOOLEAN}
\* configured names only make a difference for lists (a single file ignores them with a warning)
Canonical(cc) == (cc.given.val => cc.file.val.kind = "list") /\ (cc.given.test => cc.file.test.kind = "list")

(* ------------------------------ PART 2: the code ------------------------------ *)
\* RL4COEnvBase.__init__: names of a list default to "0", "1", ...
EnvNames(p) == IF c.given[p] THEN GivenNames(p) ELSE [k \in 1..2 |-> ToString(k - 1)]
\* RL4COEnvBase.dataset(size, phase): <<data set(s), generator calls used>>
EnvDataset(p, g) ==
    LET f == c.file[p] IN
    CASE f.kind = "none"   -> <<[dict |-> FALSE, sets |-> <<[name |-> "", src |-> <<"gen", g + 1>>, n |-> c.size[p]]>>], g + 1>>
      [] f.kind = "single" -> <<[dict |-> FALSE, sets |-> <<[name |-> "", src |-> <<"file", f.fs[1]>>, n |-> FSize(f.fs[1])]>>], g>>
      [] f.kind = "list"   -> <<[dict |-> TRUE,
                                 sets |-> [k \in 1..Len(f.fs) |-> [name |-> EnvNames(p)[k], src |-> <<"file", f.fs[k]>>,
                                                                    n |-> FSize(f.fs[k])]]], g>>
\* DataLoader(batch_size = b) over n items in data set order
RECURSIVE Chunks(_, _, _)
Chunks(from, n, b) == IF from > n THEN <<>>
                      ELSE LET to == IF from + b - 1 <= n THEN from + b - 1 ELSE n IN
                           <<[i \in 1..(to - from + 1) |-> from + i - 1]>> \o Chunks(to + 1, n, b)

Init == /\ c \in {cc \in Configs : Canonical(cc)}
        /\ pc = "new" /\ ep = 0 /\ gcount = 0 /\ last = "none" /\ dlNames = <<>>
        /\ ds = [p \in Phases |-> [dict |-> FALSE, sets |-> <<>>]]
        /\ bsz = [p \in Phases |-> 0]
        /\ route = [p \in Phases |-> <<>>] /\ hist = <<>>
        /\ keys = [p \in Phases |-> [direct |-> <<>>, trainer |-> <<>>]]

\* RL4COLitModule.setup: batch sizes with fall-backs; the three data sets in the order train, val, test; names reset
Setup == /\ pc = "new"
         /\ LET vb == IF c.bs.val = 0 THEN c.bs.train ELSE c.bs.val
                tb == IF c.bs.test = 0 THEN vb ELSE c.bs.test
                t == EnvDataset("train", gcount)
                v == EnvDataset("val", t[2])
                s == EnvDataset("test", v[2]) IN
              /\ bsz' = [train |-> c.bs.train, val |-> vb, test |-> tb]
              /\ ds' = [train |-> t[1], val |-> v[1], test |-> s[1]]
              /\ gcount' = s[2]
         /\ dlNames' = <<>> /\ pc' = "val"
         /\ UNCHANGED <<c, ep, last, route, hist, keys>>

\* <phase>_dataloader() -> _dataloader(dataset, batch size, shuffle only for train)
Load(p) == /\ dlNames' = IF ds[p].dict THEN [k \in 1..Len(ds[p].sets) |-> ds[p].sets[k].name] ELSE dlNames
           /\ route' = [route EXCEPT ![p] = [k \in 1..Len(ds[p].sets) |->
                           [name |-> IF ds[p].dict THEN ds[p].sets[k].name ELSE "", bs |-> bsz[p], src |-> ds[p].sets[k].src,
                            ordered |-> ~(p = "train" /\ c.shuffle),
                            batches |-> Chunks(1, ds[p].sets[k].n, bsz[p])]]]
           /\ last' = p
LoadVal   == pc = "val" /\ Load("val") /\ pc' = "valkeys" /\ UNCHANGED <<c, ep, gcount, ds, bsz, hist, keys>>
LoadTrain == pc = "train" /\ Load("train") /\ hist' = Append(hist, route'["train"]) /\ pc' = "end"
             /\ UNCHANGED <<c, ep, gcount, ds, bsz, keys>>
LoadTest  == pc = "test" /\ Load("test") /\ pc' = "testkeys" /\ UNCHANGED <<c, ep, gcount, ds, bsz, hist, keys>>

\* log_metrics(.., phase, dataloader_idx): name part iff an index is passed and dataloader_names is set
CodeKey(p, k, withIdx) == IF withIdx /\ dlNames # <<>> THEN p \o "/" \o Metric \o "/" \o dlNames[k] ELSE p \o "/" \o Metric
Log(p) == /\ last = p                      \* (SharedNames)
          /\ keys' = [keys EXCEPT ![p] = [direct  |-> [k \in 1..Len(route[p]) |-> CodeKey(p, k, ds[p].dict)],
                                          trainer |-> [k \in 1..Len(route[p]) |-> CodeKey(p, k, Len(route[p]) > 1)]]]
LogVal  == pc = "valkeys" /\ Log("val") /\ pc' = "train" /\ UNCHANGED <<c, ep, gcount, ds, bsz, dlNames, last, route, hist>>
LogTest == pc = "testkeys" /\ Log("test") /\ pc' = "done" /\ UNCHANGED <<c, ep, gcount, ds, bsz, dlNames, last, route, hist>>

\* on_train_epoch_end: a new training data set unless this was the last epoch
EpochEnd == /\ pc = "end"
            /\ IF ep < MaxEpochs - 1
               THEN LET t == EnvDataset("train", gcount) IN
                      /\ ds' = [ds EXCEPT !["train"] = t[1]] /\ gcount' = t[2] /\ ep' = ep + 1 /\ pc' = "train"
               ELSE /\ pc' = "test" /\ UNCHANGED <<ds, gcount, ep>>
            /\ UNCHANGED <<c, bsz, dlNames, last, route, hist, keys>>

Next == Setup \/ LoadVal \/ LogVal \/ LoadTrain \/ EpochEnd \/ LoadTest \/ LogTest
Spec == Init /\ [][Next]_vars

(* ------------------------------ PART 1: the property ------------------------------ *)
Loaded(p) == route[p] # <<>>
Items(ld) == Flat(ld.batches)
LoadsOf(p) == IF Loaded(p) THEN DOMAIN route[p] ELSE {}

\* every loader of a phase reads the phase's OWN source: one of its configured files, or else a generator data set
PhaseOwnSource == \A p \in Phases : \A k \in LoadsOf(p) :
                     IF FromFile(c, p) THEN route[p][k].src[1] = "file" /\ \E j \in DOMAIN c.file[p].fs : route[p][k].src[2] = c.file[p].fs[j]
                     ELSE route[p][k].src[1] = "gen"
\* one loader per listed file, the k-th loader reads the k-th file; instances in file / generation order (val and test
\* are never shuffled; the training loader only when asked to)
ListOrder == \A p \in Phases : Loaded(p) =>
                /\ Len(route[p]) = NLoaders(c, p)
                /\ \A k \in LoadsOf(p) :
                     /\ FromFile(c, p) => route[p][k].src = <<"file", WantFile(c, p, k)>>
                     /\ route[p][k].ordered = Ordered(c, p)
                     /\ route[p][k].ordered => Items(route[p][k]) = Ident(Len(Items(route[p][k])))
\* loader names and metric keys as configured (SingleListNoIdx: through the trainer a list of one logs the bare key)
NamesAligned == \A p \in Phases :
                  /\ \A k \in LoadsOf(p) : route[p][k].name = WantName(c, p, k)
                  /\ keys[p].direct # <<>> =>
                       /\ Len(keys[p].direct) = NLoaders(c, p) /\ Len(keys[p].trainer) = NLoaders(c, p)
                       /\ \A k \in 1..NLoaders(c, p) :
                            /\ keys[p].direct[k] = WantKey(c, p, k)
                            /\ keys[p].trainer[k] = IF NLoaders(c, p) > 1 THEN WantKey(c, p, k) ELSE KeyOf(p, "")
\* metric keys of one phase never collide (each loader's metrics stay its own)
KeysDistinct == \A p \in Phases : \A i, j \in DOMAIN keys[p].direct :
                  i # j => keys[p].direct[i] # keys[p].direct[j] /\ keys[p].trainer[i] # keys[p].trainer[j]
BatchSizeFallback == \A p \in Phases : \A k \in LoadsOf(p) :
                        route[p][k].bs = BatchSize(c, p) /\ ChunksOK(route[p][k].batches, BatchSize(c, p))
\* every instance of the source exactly once; generator data sets have the configured size of THIS phase
SizesHonoured == \A p \in Phases : \A k \in LoadsOf(p) : IsPermOf(Items(route[p][k]), WantCount(c, p, k))
\* generator data sets are never shared: not between phases, not between training epochs
NoCrossPhase == /\ \A p, q \in Phases : \A k \in LoadsOf(p), j \in LoadsOf(q) :
                      (p # q /\ route[p][k].src[1] = "gen") => route[p][k].src # route[q][j].src
                /\ \A i, j \in DOMAIN hist : (i # j /\ hist[i][1].src[1] = "gen") => hist[i][1].src # hist[j][1].src
                /\ \A i \in DOMAIN hist : \A p \in {"val", "test"} : \A k \in LoadsOf(p) :
                      hist[i][1].src[1] = "gen" => hist[i][1].src # route[p][k].src
\* the same file read for two phases (or twice in a list) gives the same instances in the same order
SameFileSame == \A p, q \in Phases : \A k \in LoadsOf(p), j \in LoadsOf(q) :
                   (route[p][k].src = route[q][j].src /\ route[p][k].ordered /\ route[q][j].ordered)
                      => Items(route[p][k]) = Items(route[q][j])
\* a training file is re-read every epoch; without one every epoch has a new data set
EpochsRight == \A i \in DOMAIN hist : Len(hist[i]) = 1 /\
                   IF FromFile(c, "train") THEN hist[i][1].src = <<"file", c.file.train.fs[1]>> ELSE hist[i][1].src[1] = "gen"
TypeOK == /\ pc \in {"new", "val", "valkeys", "train", "end", "test", "testkeys", "done"}
          /\ ep \in 0..(MaxEpochs - 1) /\ Len(hist) <= MaxEpochs
          /\ (pc = "done" => Len(hist) = MaxEpochs /\ \A p \in Phases : Loaded(p))

Emit == pc = "done" => PrintT(<<"R", c, hist, route["val"], route["test"], keys["val"], keys["test"]>>)
=============================================================================
