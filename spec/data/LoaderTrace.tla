----------------------------- MODULE LoaderTrace -----------------------------
(* C17 on executions of the REAL dataset classes + torch DataLoader +
   RolloutBaseline.wrap_dataset + RL4COLitModule._dataloader_single.
   One record = one pass over a loader:
     n, b, shuffle, has_extra, batches[k] = [[tag, extra, ok], ...]   (ok = content, dtype and shape of
     every key of that item equal the original's; extra = 0 when no extra key was attached)
   The specification walks the pass batch by batch (variable l) re-using Loader!NextBatch's
   delivery rule; the loader order of a shuffled pass is read off the trace.          *)
EXTENDS Naturals, Sequences, FiniteSets, TLC, Json, IOUtils

Recs == ndJsonDeserialize(IOEnv.TRACE_FILE)
VARIABLES tid, l, pos
vars == <<tid, l, pos>>
R == Recs[tid]
F(tag) == 10 * tag + 1
Min(x, y) == IF x <= y THEN x ELSE y
Init == tid \in 1..Len(Recs) /\ l = 0 /\ pos = 0
Next == /\ l < Len(R.batches) /\ l' = l + 1 /\ pos' = pos + Len(R.batches[l + 1]) /\ UNCHANGED tid
Spec == Init /\ [][Next]_vars
Fail(c) == PrintT(<<"FAIL", tid, c, l>>)
Cur == R.batches[l]
RECURSIVE Flat(_)
Flat(s) == IF s = <<>> THEN <<>> ELSE Head(s) \o Flat(Tail(s))
AllTags == [i \in 1..Len(Flat(R.batches)) |-> Flat(R.batches)[i][1]]

\* delivery rule of Loader!NextBatch: min(b, remaining) items
M_Size   == (l > 0 /\ Len(Cur) # Min(R.b, R.n - (pos - Len(Cur)))) => Fail("batch-size")
\* without shuffling: original order
M_Order  == (l > 0 /\ ~R.shuffle /\ \E j \in DOMAIN Cur : Cur[j][1] # pos - Len(Cur) + j) => Fail("order")
\* every item arrives unchanged (content, dtype, shape of every key)
M_Same   == (l > 0 /\ \E j \in DOMAIN Cur : ~Cur[j][3]) => Fail("item-changed")
\* the extra value travels with its own item
M_Extra  == (l > 0 /\ R.has_extra /\ \E j \in DOMAIN Cur : Cur[j][2] # F(Cur[j][1])) => Fail("extra-of-own-item")
\* at the end: exactly the original items, each once
M_Perm   == (l = Len(R.batches) /\
              ~(Len(AllTags) = R.n /\ {AllTags[i] : i \in DOMAIN AllTags} = 1..R.n)) => Fail("loss-or-duplication")
End == (l = Len(R.batches)) => PrintT(<<"END", tid>>)
=============================================================================
