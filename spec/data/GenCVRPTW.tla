----------------------------- MODULE GenCVRPTW -----------------------------
(* C18 -- a MODEL of the arithmetic of the CVRPTW time-window construction
   (rl4co/envs/routing/cvrptw/generator.py:_generate, steps 1-8) for ONE customer, explored
   for ALL points of a grid of depot distances and uniform draws.

   Exact embedding.  d = dn/Q (distance depot -> customer), the two uniform draws
   u1 = a1/M, u2 = a2/M (M a power of two), horizon T = MaxTime, service duration 0
   (the generator sets all durations to 0).  With Q | 4 and M | 1024 every intermediate value
   of the real float32 computation  dist + (upper_bound - dist) * ts  is a multiple of
   1/(Q*M) below 512 and is therefore EXACT; `.int()` truncates toward zero.  So the model's
   integers are the real generator's integers, which the harness confirms by replaying every
   grid point into the real generator with the draws pinned.

   The steps of the code are the actions of the machine (pc):
     "s4"  min_ts = int(d + (ub - d) u1), max_ts = int(d + (ub - d) u2),   ub = T - d - 0
     "s5"  lo = min(min_ts, max_ts), hi = max(min_ts, max_ts)
     "s7a" if lo = hi:  lo := max(int(d), lo - 1)
     "s7b" if still lo = hi:  hi := min(floor(ub), max(ceil(lo + 0), hi + 1))
     "s8"  the generator's own assertion lo < hi (else it raises: raised = TRUE); emit
   Invariants at "done" = the contract clauses of Generators!Clauses_cvrptw for this customer, plus
   the assumption CVRPTW!InstanceOK of the environment model on the one-customer instance.        *)
EXTENDS Util, TLC

CONSTANTS Q,          \* distance grid: d = dn / Q
          M,          \* draw grid: u = a / M
          MaxTime,    \* horizon (max_time)
          DMaxN,      \* largest distance numerator (d <= DMaxN / Q)
          DStride, DKeep,   \* thinning of the distance grid: keep dn with dn % DStride < DKeep
          UNums       \* numerators of the draws, subset of 0..(M-1)

EnvCVRPTW == INSTANCE CVRPTW

VARIABLES dn, a1, a2, minTs, maxTs, lo, hi, raised, pc
vars == <<dn, a1, a2, minTs, maxTs, lo, hi, raised, pc>>

DNums == {k \in 0..DMaxN : k % DStride < DKeep}
\* torch .int(): truncation toward zero of num/den (den > 0)
Trunc(num, den) == IF num >= 0 THEN num \div den ELSE -((-num) \div den)
Floor(num, den) == num \div den                                  \* TLA+ \div floors
Ceil(num, den)  == -((-num) \div den)
\* d + (ub - d) * u  with ub = T - d:  numerator over the common denominator Q*M
XNum(d, a) == d * M + (MaxTime * Q - 2 * d) * a
UbNum      == MaxTime * Q - dn                                   \* ub = UbNum / Q

Init == /\ dn \in DNums /\ a1 \in UNums /\ a2 \in UNums
        /\ minTs = 0 /\ maxTs = 0 /\ lo = 0 /\ hi = 0 /\ raised = FALSE /\ pc = "s4"
S4 == /\ pc = "s4"
      /\ minTs' = Trunc(XNum(dn, a1), Q * M) /\ maxTs' = Trunc(XNum(dn, a2), Q * M)
      /\ pc' = "s5" /\ UNCHANGED <<dn, a1, a2, lo, hi, raised>>
S5 == /\ pc = "s5"
      /\ lo' = Min(minTs, maxTs) /\ hi' = Max(minTs, maxTs)
      /\ pc' = "s7a" /\ UNCHANGED <<dn, a1, a2, minTs, maxTs, raised>>
S7a == /\ pc = "s7a"
       /\ lo' = IF lo = hi THEN Max(Trunc(dn, Q), lo - 1) ELSE lo
       /\ pc' = "s7b" /\ UNCHANGED <<dn, a1, a2, minTs, maxTs, hi, raised>>
S7b == /\ pc = "s7b"
       /\ hi' = IF lo = hi THEN Min(Floor(UbNum, Q), Max(lo, hi + 1)) ELSE hi     \* ceil(lo + 0) = lo
       /\ pc' = "s8" /\ UNCHANGED <<dn, a1, a2, minTs, maxTs, lo, raised>>
S8 == /\ pc = "s8"
      /\ raised' = ~(lo < hi)
      /\ pc' = "done" /\ UNCHANGED <<dn, a1, a2, minTs, maxTs, lo, hi>>
Next == S4 \/ S5 \/ S7a \/ S7b \/ S8
Spec == Init /\ [][Next]_vars

Done == pc = "done"
(* ------------------------------ the contract ------------------------------ *)
NoRaise    == Done => ~raised                               \* a valid configuration never trips the assertion
Ordered    == Done => (0 <= lo /\ lo < hi)                  \* tw_start < tw_end
Reachable  == Done => dn <= hi * Q                          \* dist(0, j) <= tw_end
CanReturn  == Done => hi * Q + dn <= MaxTime * Q            \* tw_end + duration + dist(j, 0) <= horizon
\* the one-customer instance in units of 1/Q satisfies the environment model's assumption
OneInst == [N |-> 1, dem |-> <<1>>, cap |-> 1, dur |-> <<0>>, tws |-> <<lo * Q>>, twe |-> <<hi * Q>>,
            D |-> <<<<0, dn>>, <<dn, 0>>>>, H |-> MaxTime * Q]
EnvAssumption == Done => EnvCVRPTW!InstanceOK(OneInst)
\* WHY an unreachable customer cannot be emitted although max_ts = int(.) may fall below d:
\* both truncated draws are >= floor(d); if they differ the larger is >= floor(d) + 1 >= d; if they
\* coincide the repair keeps lo >= floor(d) (s7a cannot lower it below int(d)) and s7b lifts hi to lo + 1.
FloorBound == (pc \in {"s5", "s7a", "s7b", "s8", "done"} /\ MaxTime * Q >= 2 * dn) =>
                 (minTs >= Trunc(dn, Q) /\ maxTs >= Trunc(dn, Q))
\* outside the documented precondition (max_time too small for max_loc): what is emitted WITHOUT the assertion firing
ReachableIfEmitted == (Done /\ ~raised) => dn <= hi * Q
CanReturnIfEmitted == (Done /\ ~raised) => hi * Q + dn <= MaxTime * Q
Emit == Done => PrintT(<<"W", dn, a1, a2, lo, hi, raised>>)
=============================================================================
