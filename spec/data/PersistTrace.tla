---------------------------- MODULE PersistTrace ----------------------------
(* C19 on executions of the REAL code.  One record = one instance (one row) taken
   through one persistence round trip, with the ORIGINAL object and the RESTORED
   object run side by side on the real environment:
     kind   "npz" | "dataset" | "text" | "envcopy" | "ckpt"
     what   the concrete route (environment, codec, sizes ...), free text
     a      the actions played: each one drawn from the mask the ORIGINAL offered
            (finished rows are stepped on with an offered action, or 0 if none)
     orig, rest   {mask: [..sorted admitted actions..] per step (index 1 = after reset),
                   done: [..] per step, reward: float32 bit pattern of the final reward}
     content_equal  restored instance = original instance, key by key, value by value,
                    up to padded columns (text files) -- computed on the tensors
     dtype_equal    every key came back with the dtype and shape it was saved with
     strict         the carrier is lossless (npz, pickle, deepcopy): dtypes must survive
     rng_equal      (environment copies) the restored environment generates the instances
                    the original would have generated next
     greedy_o / greedy_r, greedy_ro / greedy_rr   actions and reward (bit pattern) of the same
                    deterministic policy (a network decoded greedily, or a forced rule) on the
                    original and on the restored object
   The specification walks the episode step by step (variable l), exactly as
   Persist!PNext does: both copies have taken the same action a[l], which the original
   offered.  Failing clauses print <<"FAIL", tid, clause, l>>; TLC never halts.     *)
EXTENDS Naturals, Sequences, TLC, Json, IOUtils

Recs == ndJsonDeserialize(IOEnv.TRACE_FILE)

VARIABLES tid, l
vars == <<tid, l>>

R == Recs[tid]
T == Len(R.a)

Init == tid \in 1..Len(Recs) /\ l = 0
Next == l < T /\ l' = l + 1 /\ UNCHANGED tid
Spec == Init /\ [][Next]_vars

Fail(c) == PrintT(<<"FAIL", tid, c, l>>)
InSeq(x, s) == \E k \in DOMAIN s : s[k] = x

\* harness sanity (not a verdict): the action played next was offered by the original
M_Offered == (l < T /\ R.orig.mask[l + 1] # <<>> /\ ~InSeq(R.a[l + 1], R.orig.mask[l + 1]))
                => PrintT(<<"DRIFT", tid, "action-not-offered", l>>)

\* Persist!MaskEq, DoneEq after l common steps
M_Mask == (R.rest.mask[l + 1] # R.orig.mask[l + 1]) => Fail("mask")
M_Done == (R.rest.done[l + 1] # R.orig.done[l + 1]) => Fail("done")
\* Persist!RewardEq
M_Reward == (l = T /\ R.rest.reward # R.orig.reward) => Fail("reward")
\* Persist!ContentEq (up to padding), and what a lossless carrier owes on top of it
M_Content == (l = 0 /\ ~R.content_equal) => Fail("content")
M_Dtype   == (l = 0 /\ R.strict /\ ~R.dtype_equal) => Fail("dtype-shape")
M_Rng     == (l = 0 /\ ~R.rng_equal) => Fail("rng")
\* Persist!GreedyEq
M_Greedy  == (l = T /\ R.greedy_r # R.greedy_o) => Fail("greedy-actions")
M_GreedyReward == (l = T /\ R.greedy_rr # R.greedy_ro) => Fail("greedy-reward")

End == (l = T) => PrintT(<<"END", tid>>)
=============================================================================
