------------------------------ MODULE GenMTVRP ------------------------------
(* C18 -- a MODEL of the MTVRP time-window and distance-limit formulas
   (rl4co/envs/routing/mtvrp/generator.py: generate_time_windows, generate_distance_limit)
   for ONE customer over a grid of depot distances and uniform draws, in exact rationals.

   Units.  Times/distances in thousandths; the three uniform draws are a/G (G = 8), so
   service time  s = 0.15 + 0.03 * as/G,  window length  l = 0.18 + 0.02 * al/G  are integers in
   units of 1/(1000 G) ("U1") and the window start is an integer in units of 1/(1000 G^2) ("U2").
   Code:   h_max = (T - s - l) / d * speed - 1
           tw_start = (1 + (h_max - 1) * r) * d / speed ;  tw_end = tw_start + l
   Algebraically (speed = 1, d > 0):  tw_start = d + (T - s - l - 2 d) * r.
   The real code computes this in float32 with a division by d: the harness replays every grid
   point into the real functions with the draws pinned and compares within 2e-5.
   d = 0 (customer on the depot) divides by zero in the code; the grid starts at d = 1/1000.   *)
EXTENDS Util, TLC

CONSTANTS G, DSet,      \* draw denominators; distances in thousandths (> 0)
          T, L,         \* max_time and distance_limit in thousandths
          ASet          \* draw numerators, subset of 0..(G-1)
VARIABLES d, as, al, ar, s1, l1, st2, limRaised, pc
vars == <<d, as, al, ar, s1, l1, st2, limRaised, pc>>

Init == /\ d \in DSet /\ as \in ASet /\ al \in ASet /\ ar \in ASet
        /\ s1 = 0 /\ l1 = 0 /\ st2 = 0 /\ limRaised = FALSE /\ pc = "svc"
Svc   == pc = "svc" /\ s1' = 150 * G + 30 * as /\ pc' = "len" /\ UNCHANGED <<d, as, al, ar, l1, st2, limRaised>>
Len_  == pc = "len" /\ l1' = 180 * G + 20 * al /\ pc' = "start" /\ UNCHANGED <<d, as, al, ar, s1, st2, limRaised>>
\* tw_start in U2:  d*G*G + (T*G - s1 - l1 - 2*d*G) * ar
Start == pc = "start" /\ st2' = d * G * G + (T * G - s1 - l1 - 2 * d * G) * ar /\ pc' = "limit"
         /\ UNCHANGED <<d, as, al, ar, s1, l1, limRaised>>
\* generate_distance_limit: assert 2 * dist < limit, else raise
Limit == pc = "limit" /\ limRaised' = ~(2 * d < L) /\ pc' = "done" /\ UNCHANGED <<d, as, al, ar, s1, l1, st2>>
Next == Svc \/ Len_ \/ Start \/ Limit
Spec == Init /\ [][Next]_vars

Done == pc = "done"
End2 == st2 + l1 * G                                        \* tw_end in U2
(* the contract (Generators!Clauses_mtvrp for this customer) *)
Ordered      == Done => (st2 >= 0 /\ st2 < End2)
OpensAfterArrival == Done => st2 >= d * G * G                 \* the window never opens before the vehicle can be there
Reachable    == Done => d * G * G <= End2                     \* travel(0, j) <= tw_end
CanReturn    == Done => End2 + s1 * G + d * G * G <= T * G * G \* tw_end + service + travel(j, 0) <= max_time
LimitOK      == Done => (~limRaised /\ 2 * d <= L)            \* out and back within the distance limit
ServiceRange == Done => (150 * G <= s1 /\ s1 <= 180 * G /\ 180 * G <= l1 /\ l1 <= 200 * G)
Emit == Done => PrintT(<<"V", d, as, al, ar, s1, l1, st2, limRaised>>)
=============================================================================
