----------------------------- MODULE Generators -----------------------------
(* C18 -- the CONTRACT of the instance generators of rl4co
   (rl4co/envs/*/*/generator.py, rl4co/envs/common/utils.py:get_sampler,
   rl4co/envs/common/distribution_utils.py).

   For every generator family <f> this module defines
        Clauses_<f>(inst)    the named clauses of the contract, a sequence of <<name, BOOLEAN>>
        InstanceOK_<f>(inst) == all clauses hold
   over an INTEGER-SCALED instance record `inst` (one generated instance + the configuration
   it was requested with).  Quantities of the unit square are scaled by inst.U (10^6; 10^4
   for the unscaled CVRPTW whose coordinates reach 150 and times 480), so that every
   integer stays below 2^30.  Real-valued clauses that compare two floats are given the
   explicit slack TolF (in scaled units); clauses about integers are exact.

   Record fields shared by all families
     fam      family name                    cfg     index of the configuration (reporting only)
     keys     keys of the generated TensorDict
     shp      <<[k |-> key, s |-> shape without the batch dimension, dt |-> "float"|"int"|"bool"], ...>>
     ok       the harness could read every tensor it needs (keys present, ranks as expected)
     finite   no NaN, and no infinity except where the contract allows one (MTVRP defaults)
     U        scale (units per 1.0); lo, hi  scaled coordinate bounds [min_loc, max_loc] of the configuration

   Where an environment module spec/env/<X>.tla exists whose InstanceOK is the assumption
   under which the environment model was proven dead-end free, the clause "env-assumption"
   evaluates THAT operator on the same record (field names are shared on purpose), so
   the generator contract and the environment assumption cannot drift apart silently.     *)
EXTENDS Util

EnvCVRP   == INSTANCE CVRP
EnvCVRPTW == INSTANCE CVRPTW
EnvMCP    == INSTANCE MCP
EnvFJSP   == INSTANCE FJSP
EnvFFSP   == INSTANCE FFSP
EnvSMTWTP == INSTANCE SMTWTP
EnvSVRP   == INSTANCE SVRP
EnvDPP    == INSTANCE DPP
EnvATSP   == INSTANCE ATSP
EnvTSP    == INSTANCE TSP

TolF == 2                                  \* slack for float-vs-float clauses, scaled units

AllHold(cl)      == \A i \in DOMAIN cl : cl[i][2]
InRange(seq, a, b) == \A i \in DOMAIN seq : a <= seq[i] /\ seq[i] <= b
HasShape(inst, k, s, dts) == \E e \in ToSetU(inst.shp) : e.k = k /\ e.s = s /\ e.dt \in dts
KeysOK(inst, exp)   == \A i \in DOMAIN exp : exp[i][1] \in ToSetU(inst.keys)
ShapesOK(inst, exp) == \A i \in DOMAIN exp : HasShape(inst, exp[i][1], exp[i][2], exp[i][3])
FL == {"float"}
INTG == {"int"}
BO == {"bool"}
NUM == {"float", "int"}

\* the frame every family shares: keys, shapes/dtypes, readable, finite, then the value clauses
Frame(inst, exp, val) ==
  << <<"keys", KeysOK(inst, exp)>>,
     <<"shapes", KeysOK(inst, exp) => ShapesOK(inst, exp)>>,
     <<"readable", inst.ok>>,
     <<"finite", inst.ok => inst.finite>> >> \o (IF inst.ok /\ inst.finite THEN val ELSE <<>>)

\* table look-up with the documented fall-back "closest tabulated size" (ties: the smaller size)
Closest(ks, n) == CHOOSE k \in ks : \A k2 \in ks :
                     Abs(k - n) < Abs(k2 - n) \/ (Abs(k - n) = Abs(k2 - n) /\ k <= k2)
\* Kool et al. 2019, Hottung et al. 2022, Kim et al. 2023
CapKeys == {10, 15, 20, 30, 40, 50, 60, 75, 100, 125, 150, 200, 500, 1000}
CapAt(k) == CASE k = 10 -> 20 [] k = 15 -> 25 [] k = 20 -> 30 [] k = 30 -> 33 [] k = 40 -> 37 [] k = 50 -> 40
              [] k = 60 -> 43 [] k = 75 -> 45 [] k = 100 -> 50 [] k = 125 -> 55 [] k = 150 -> 60
              [] k = 200 -> 70 [] k = 500 -> 100 [] k = 1000 -> 150
CVRPCap(n) == CapAt(Closest(CapKeys, n))
LenKeys == {20, 50, 100}
LenAt(k) == CASE k = 20 -> 2 [] k = 50 -> 3 [] k = 100 -> 4           \* OP max length / PCTSP max penalty
TourLen(n) == LenAt(Closest(LenKeys, n))
\* Liu et al. 2024: 30 + n/5 above 20 nodes (sizes up to 1000)
MTVRPCap(n) == 30 + (IF n > 20 THEN n \div 5 ELSE 0)

Coords(inst, xs) == InRange(xs, inst.lo, inst.hi)

(* ------------------------------- TSP ------------------------------- *)
Exp_tsp(inst) == << <<"locs", <<inst.N, 2>>, FL>> >>
Clauses_tsp(inst) == Frame(inst, Exp_tsp(inst),
  << <<"coords-in-bounds", Coords(inst, inst.xs)>>,
     <<"env-assumption", EnvTSP!InstanceOK(inst)>> >>)
InstanceOK_tsp(inst) == AllHold(Clauses_tsp(inst))

(* ------------------------------- ATSP ------------------------------ *)
\* D = scaled cost matrix (N x N); dlo, dhi = scaled [min_dist, max_dist]; tmat = triangle inequality requested
Exp_atsp(inst) == << <<"cost_matrix", <<inst.N, inst.N>>, FL>> >>
Clauses_atsp(inst) == Frame(inst, Exp_atsp(inst),
  << <<"zero-diagonal", \A i \in 1..inst.N : inst.D[i][i] = 0>>,
     <<"dist-in-bounds", \A i, j \in 1..inst.N : i # j => (inst.dlo <= inst.D[i][j] /\ inst.D[i][j] <= inst.dhi)>>,
     <<"triangle-inequality", inst.tmat => \A i, j, k \in 1..inst.N : inst.D[i][j] <= inst.D[i][k] + inst.D[k][j] + TolF>>,
     <<"env-assumption", EnvATSP!InstanceOK(inst)>> >>)
InstanceOK_atsp(inst) == AllHold(Clauses_atsp(inst))

(* ---------------------- CVRP (also SDVRP) -------------------------- *)
\* dem[j] = demand * capacity rounded (demInt: it IS an integer), cap = emitted capacity,
\* capCfg = requested capacity override (0: none -> table), minDem..maxDem requested demand range
Exp_cvrp(inst) == << <<"locs", <<inst.N, 2>>, FL>>, <<"depot", <<2>>, FL>>, <<"demand", <<inst.N>>, FL>>,
                     <<"capacity", <<1>>, NUM>> >>
Val_cvrp(inst) ==
  << <<"coords-in-bounds", Coords(inst, inst.xs)>>,
     <<"depot-in-bounds", Coords(inst, inst.dep)>>,
     <<"demand-integral", inst.demInt>>,
     <<"demand-in-range", InRange(inst.dem, inst.minDem, inst.maxDem)>>,
     <<"demand-le-capacity", InRange(inst.dem, 1, inst.cap)>>,
     <<"capacity-value", inst.cap = (IF inst.capCfg > 0 THEN inst.capCfg ELSE CVRPCap(inst.N))>>,
     <<"env-assumption", EnvCVRP!InstanceOK(inst)>> >>
Clauses_cvrp(inst) == Frame(inst, Exp_cvrp(inst), Val_cvrp(inst))
InstanceOK_cvrp(inst) == AllHold(Clauses_cvrp(inst))

(* ------------------------------ CVRPTW ----------------------------- *)
\* tws, twe, dur : N+1 entries, depot first; d0[j] = distance depot -> customer j (N entries); H = horizon.
\* time_windows are int32 when unscaled and float32 when scaled: both admitted.
Exp_cvrptw(inst) == Exp_cvrp(inst) \o << <<"durations", <<inst.N + 1>>, FL>>, <<"time_windows", <<inst.N + 1, 2>>, NUM>> >>
\* the environment module's instance: customers only, the two depot legs of the distance matrix
\* (TolF taken off the float distance: twe is an integer number of time units when unscaled)
TWEnvInst(inst) ==
  [N |-> inst.N, dem |-> inst.dem, cap |-> inst.cap, H |-> inst.H,
   tws |-> [j \in 1..inst.N |-> inst.tws[j + 1]], twe |-> [j \in 1..inst.N |-> inst.twe[j + 1]],
   dur |-> [j \in 1..inst.N |-> inst.dur[j + 1]],
   D |-> [i \in 1..(inst.N + 1) |-> [k \in 1..(inst.N + 1) |->
            IF i = 1 /\ k > 1 THEN Max(0, inst.d0[k - 1] - TolF)
            ELSE IF k = 1 /\ i > 1 THEN Max(0, inst.d0[i - 1] - TolF) ELSE 0]]]
Val_cvrptw(inst) ==
  << <<"depot-window", inst.tws[1] = 0 /\ inst.twe[1] = inst.H /\ inst.dur[1] = 0>>,
     <<"window-ordered", \A j \in 2..(inst.N + 1) : 0 <= inst.tws[j] /\ inst.tws[j] < inst.twe[j]>>,
     <<"window-reachable", \A j \in 1..inst.N : inst.d0[j] <= inst.twe[j + 1] + TolF>>,
     <<"time-to-return", \A j \in 1..inst.N : inst.twe[j + 1] + inst.dur[j + 1] + inst.d0[j] <= inst.H + TolF>>,
     <<"duration-nonneg", \A j \in 1..(inst.N + 1) : inst.dur[j] >= 0>>,
     <<"env-assumption-tw", EnvCVRPTW!InstanceOK(TWEnvInst(inst))>> >>
Clauses_cvrptw(inst) == Frame(inst, Exp_cvrptw(inst), Val_cvrp(inst) \o Val_cvrptw(inst))
InstanceOK_cvrptw(inst) == AllHold(Clauses_cvrptw(inst))

(* -------------------------------- OP ------------------------------- *)
\* prize100 = prize * 100 rounded (prizeInt: a multiple of 0.01); L = emitted max length, LCfg = override (0: table)
Exp_op(inst) == << <<"locs", <<inst.N, 2>>, FL>>, <<"depot", <<2>>, FL>>, <<"prize", <<inst.N>>, FL>>,
                   <<"max_length", <<>>, FL>> >>
Clauses_op(inst) == Frame(inst, Exp_op(inst),
  << <<"coords-in-bounds", Coords(inst, inst.xs)>>,
     <<"depot-in-bounds", Coords(inst, inst.dep)>>,
     <<"prize-grid", inst.prizeInt /\ InRange(inst.prize100, 1, 100)>>,
     <<"prize-type", CASE inst.ptype = "const" -> InRange(inst.prize100, 100, 100)
                       [] inst.ptype = "dist" -> \E j \in DOMAIN inst.prize100 : inst.prize100[j] = 100
                       [] OTHER -> TRUE>>,
     <<"max-length-value", inst.L = (IF inst.LCfg > 0 THEN inst.LCfg ELSE TourLen(inst.N) * inst.U)>> >>)
InstanceOK_op(inst) == AllHold(Clauses_op(inst))

(* ------------------------- PCTSP / SPCTSP -------------------------- *)
\* pen, dprize, sprize scaled by S; pf10 = penalty_factor * 10
Exp_pctsp(inst) == << <<"locs", <<inst.N, 2>>, FL>>, <<"depot", <<2>>, FL>>, <<"penalty", <<inst.N>>, FL>>,
                      <<"deterministic_prize", <<inst.N>>, FL>>, <<"stochastic_prize", <<inst.N>>, FL>> >>
Clauses_pctsp(inst) == Frame(inst, Exp_pctsp(inst),
  << <<"coords-in-bounds", Coords(inst, inst.xs)>>,
     <<"depot-in-bounds", Coords(inst, inst.dep)>>,
     \* penalty in [0, max_penalty], max_penalty = tour-length estimate * penalty_factor / N
     <<"penalty-in-range", \A j \in 1..inst.N : 0 <= inst.pen[j] /\
            inst.pen[j] * inst.N <= (TourLen(inst.N) * inst.pf10 * (inst.U \div 10)) + TolF * inst.N>>,
     \* expected prize uniform on [0, 4/N]
     <<"prize-in-range", \A j \in 1..inst.N : 0 <= inst.dprize[j] /\ inst.dprize[j] * inst.N <= 4 * inst.U + TolF * inst.N>>,
     \* realised prize in [0, 2 * expected prize]
     <<"stochastic-prize-in-range", \A j \in 1..inst.N : 0 <= inst.sprize[j] /\ inst.sprize[j] <= 2 * inst.dprize[j] + TolF>> >>)
InstanceOK_pctsp(inst) == AllHold(Clauses_pctsp(inst))

(* -------------------------------- PDP ------------------------------ *)
\* reqN = requested num_loc; pickups 1..N/2, delivery of pickup i is i + N/2: N must be even
Exp_pdp(inst) == << <<"locs", <<inst.N, 2>>, FL>>, <<"depot", <<2>>, FL>> >>
Clauses_pdp(inst) == Frame(inst, Exp_pdp(inst),
  << <<"coords-in-bounds", Coords(inst, inst.xs)>>,
     <<"depot-in-bounds", Coords(inst, inst.dep)>>,
     <<"paired", inst.N % 2 = 0 /\ inst.N = inst.reqN + (inst.reqN % 2) /\ inst.N >= 2>> >>)
InstanceOK_pdp(inst) == AllHold(Clauses_pdp(inst))

(* ------------------------------- mTSP ------------------------------ *)
Exp_mtsp(inst) == << <<"locs", <<inst.N, 2>>, FL>>, <<"num_agents", <<>>, INTG>> >>
Clauses_mtsp(inst) == Frame(inst, Exp_mtsp(inst),
  << <<"coords-in-bounds", Coords(inst, inst.xs)>>,
     <<"agents-in-range", inst.mMin <= inst.m /\ inst.m <= inst.mMax /\ inst.m >= 1>> >>)
InstanceOK_mtsp(inst) == AllHold(Clauses_mtsp(inst))

(* ------------------------------- SVRP ------------------------------ *)
\* skill[t] = technician skill (ascending), req[j] = skill needed by customer j, cost = configured costs
Exp_svrp(inst) == << <<"locs", <<inst.N, 2>>, FL>>, <<"depot", <<2>>, FL>>, <<"techs", <<inst.T, 1>>, FL>>,
                     <<"skills", <<inst.N, 1>>, FL>> >>
Clauses_svrp(inst) == Frame(inst, Exp_svrp(inst),
  << <<"coords-in-bounds", Coords(inst, inst.xs)>>,
     <<"depot-in-bounds", Coords(inst, inst.dep)>>,
     <<"techs-in-range", InRange(inst.skill, inst.sMin, inst.sMax)>>,
     <<"techs-sorted", \A t \in 1..(inst.T - 1) : inst.skill[t] <= inst.skill[t + 1]>>,
     <<"every-customer-serviceable", \A j \in 1..inst.N : 0 <= inst.req[j] /\ inst.req[j] <= inst.skill[inst.T]>>,
     <<"env-assumption", EnvSVRP!InstanceOK(inst)>> >>)
InstanceOK_svrp(inst) == AllHold(Clauses_svrp(inst))

(* ------------------------------ MDCPDP ----------------------------- *)
Exp_mdcpdp(inst) == << <<"locs", <<inst.N, 2>>, FL>>, <<"depot", <<inst.nd, 2>>, FL>>, <<"capacity", <<1>>, INTG>>,
                       <<"lateness_weight", <<1>>, FL>> >>
Clauses_mdcpdp(inst) == Frame(inst, Exp_mdcpdp(inst),
  << <<"coords-in-bounds", Coords(inst, inst.xs)>>,
     <<"depot-in-bounds", Coords(inst, inst.deps)>>,
     <<"paired", inst.N % 2 = 0 /\ inst.N = inst.reqN + (inst.reqN % 2) /\ inst.N >= 2>>,
     <<"capacity-in-range", inst.capMin <= inst.cap /\ inst.cap <= inst.capMax /\ inst.cap >= 1>>,
     <<"lateness-weight-in-range", inst.lwMin <= inst.lw /\ inst.lw <= inst.lwMax>>,
     <<"single-depot-shared", inst.single => \A d \in 1..inst.nd :
            inst.deps[2 * d - 1] = inst.deps[1] /\ inst.deps[2 * d] = inst.deps[2]>> >>)
InstanceOK_mdcpdp(inst) == AllHold(Clauses_mdcpdp(inst))

(* ------------------------------- MTVRP ----------------------------- *)
(* node-indexed sequences have N+1 entries, depot first.
   lh, bh  linehaul / backhaul demand times the original capacity, rounded (demInt: integers)
   capO    capacity_original, capCfg override (0: Liu et al. rule), vcap = scaled vehicle_capacity
   tws, twe, svc scaled; twe = -1 encodes +infinity; t0 = travel time depot -> node = distance / speed
   d0 distance depot -> node; lim = scaled distance limit, -1 = +infinity; H = max_time
   preset  name of the requested variant preset ("none": no sub-sampling, all features kept)  *)
Feat(o, tw, l, b) == [O |-> o, TW |-> tw, L |-> l, B |-> b]
PresetOf(p) ==
  CASE p = "cvrp" -> Feat(0, 0, 0, 0)    [] p = "ovrp" -> Feat(1, 0, 0, 0)    [] p = "vrpb" -> Feat(0, 0, 0, 1)
    [] p = "vrpl" -> Feat(0, 0, 1, 0)    [] p = "vrptw" -> Feat(0, 1, 0, 0)   [] p = "ovrptw" -> Feat(1, 1, 0, 0)
    [] p = "ovrpb" -> Feat(1, 0, 0, 1)   [] p = "ovrpl" -> Feat(1, 0, 1, 0)   [] p = "vrpbl" -> Feat(0, 0, 1, 1)
    [] p = "vrpbtw" -> Feat(0, 1, 0, 1)  [] p = "vrpltw" -> Feat(0, 1, 1, 0)  [] p = "ovrpbl" -> Feat(1, 0, 1, 1)
    [] p = "ovrpbtw" -> Feat(1, 1, 0, 1) [] p = "ovrpltw" -> Feat(1, 1, 1, 0) [] p = "vrpbltw" -> Feat(0, 1, 1, 1)
    [] p = "ovrpbltw" -> Feat(1, 1, 1, 1) [] p = "none" -> Feat(1, 1, 1, 1)
CustIx(inst) == 2..(inst.N + 1)
HasO(inst)  == inst.open
HasTW(inst) == \A j \in CustIx(inst) : inst.twe[j] # -1
NoTW(inst)  == \A j \in CustIx(inst) : inst.twe[j] = -1 /\ inst.tws[j] = 0 /\ inst.svc[j] = 0
HasL(inst)  == inst.lim # -1
HasB(inst)  == \E j \in CustIx(inst) : inst.bh[j] > 0
B2N(b) == IF b THEN 1 ELSE 0
NFeat(inst) == B2N(HasO(inst)) + B2N(HasTW(inst)) + B2N(HasL(inst)) + B2N(HasB(inst))
PresetConsistent(inst) ==
  CASE inst.preset = "all" -> TRUE
    [] inst.preset = "single_feat" -> NFeat(inst) <= 1
    [] inst.preset = "single_feat_otw" ->
          NFeat(inst) <= 1 \/ (HasO(inst) /\ HasTW(inst) /\ ~HasL(inst) /\ ~HasB(inst))
    [] OTHER -> LET f == PresetOf(inst.preset) IN
          /\ HasO(inst) = (f.O = 1) /\ HasTW(inst) = (f.TW = 1) /\ HasL(inst) = (f.L = 1)
          /\ (f.B = 0 => ~HasB(inst))
Exp_mtvrp(inst) ==
  << <<"locs", <<inst.N + 1, 2>>, FL>>, <<"demand_linehaul", <<inst.N + 1>>, FL>>, <<"demand_backhaul", <<inst.N + 1>>, FL>>,
     <<"distance_limit", <<1>>, FL>>, <<"time_windows", <<inst.N + 1, 2>>, FL>>, <<"service_time", <<inst.N + 1>>, FL>>,
     <<"vehicle_capacity", <<1>>, FL>>, <<"capacity_original", <<1>>, FL>>, <<"open_route", <<1>>, BO>>,
     <<"speed", <<1>>, FL>> >>
Clauses_mtvrp(inst) == Frame(inst, Exp_mtvrp(inst),
  << <<"coords-in-bounds", Coords(inst, inst.xs)>>,
     <<"depot-demand-zero", inst.lh[1] = 0 /\ inst.bh[1] = 0>>,
     <<"demand-integral", inst.demInt>>,
     <<"linehaul-xor-backhaul", \A j \in CustIx(inst) : (inst.lh[j] > 0 /\ inst.bh[j] = 0) \/ (inst.bh[j] > 0 /\ inst.lh[j] = 0)>>,
     <<"linehaul-in-range", \A j \in CustIx(inst) : inst.lh[j] > 0 =>
            (inst.lh[j] >= Min(inst.minDem, inst.minBh) /\ inst.lh[j] <= Max(inst.maxDem, inst.maxBh))>>,
     <<"backhaul-in-range", \A j \in CustIx(inst) : inst.bh[j] > 0 => (inst.minBh <= inst.bh[j] /\ inst.bh[j] <= inst.maxBh)>>,
     <<"demand-le-capacity", \A j \in CustIx(inst) : inst.lh[j] + inst.bh[j] <= inst.capO>>,
     <<"capacity-value", inst.capO = (IF inst.capCfg > 0 THEN inst.capCfg ELSE MTVRPCap(inst.N))>>,
     <<"vehicle-capacity-scaled", inst.vcap = (IF inst.scaleDemand THEN inst.U ELSE inst.capO * inst.U)>>,
     <<"speed-value", inst.speed = inst.speedCfg>>,
     <<"tw-all-or-none", HasTW(inst) \/ NoTW(inst)>>,
     <<"depot-window", inst.tws[1] = 0 /\ inst.svc[1] = 0 /\ (inst.twe[1] = inst.H \/ (NoTW(inst) /\ inst.twe[1] = -1))>>,
     <<"window-ordered", HasTW(inst) => \A j \in CustIx(inst) : 0 <= inst.tws[j] /\ inst.tws[j] < inst.twe[j] /\ inst.svc[j] >= 0>>,
     <<"window-reachable", HasTW(inst) => \A j \in CustIx(inst) : inst.t0[j] <= inst.twe[j] + TolF>>,
     <<"time-to-return", HasTW(inst) => \A j \in CustIx(inst) : inst.twe[j] + inst.svc[j] + inst.t0[j] <= inst.H + TolF>>,
     <<"limit-value", inst.lim = -1 \/ inst.lim = inst.limCfg>>,
     <<"limit-reachable", HasL(inst) => \A j \in CustIx(inst) : 2 * inst.d0[j] <= inst.lim + TolF>>,
     <<"preset-consistent", PresetConsistent(inst)>> >>)
InstanceOK_mtvrp(inst) == AllHold(Clauses_mtvrp(inst))

(* --------------------------- FJSP / JSSP --------------------------- *)
(* J jobs, M machines, P padded operation columns; start/end 0-based first/last operation of each job,
   nops = end - start + 1, pad[o] padding flag of column o (1-based), pt[m][o] integer processing time
   (0 = not eligible), ptInt: all entries integers.                                             *)
Exp_fjsp(inst) == << <<"start_op_per_job", <<inst.J>>, INTG>>, <<"end_op_per_job", <<inst.J>>, INTG>>,
                     <<"proc_times", <<inst.M, inst.P>>, NUM>>, <<"pad_mask", <<inst.P>>, BO>> >>
TotalOps(inst) == SumSeq(inst.nops)
Elig(inst, o)  == {m \in 1..inst.M : inst.pt[m][o] > 0}
JobOps(inst, j) == (inst.start[j] + 1)..(inst.end[j] + 1)
MachOf(inst, o) == CHOOSE m \in 1..inst.M : inst.pt[m][o] > 0
Clauses_fjsp(inst) == Frame(inst, Exp_fjsp(inst),
  << <<"padded-width", inst.P = inst.maxOps * inst.J>>,
     <<"job-structure", inst.start[1] = 0 /\ (\A j \in 1..inst.J : inst.nops[j] = inst.end[j] - inst.start[j] + 1)
                          /\ \A j \in 1..(inst.J - 1) : inst.start[j + 1] = inst.end[j] + 1>>,
     <<"ops-per-job-in-range", InRange(inst.nops, Max(1, inst.minOps), inst.maxOps)>>,
     <<"pad-mask", \A o \in 1..inst.P : inst.pad[o] = (o > TotalOps(inst))>>,
     <<"times-integral", inst.ptInt>>,
     <<"every-op-has-a-machine", \A o \in 1..Min(TotalOps(inst), inst.P) : Elig(inst, o) # {}>>,
     <<"eligible-count-in-range", \A o \in 1..Min(TotalOps(inst), inst.P) :
            LET c == Cardinality(Elig(inst, o)) IN
            IF inst.jssp THEN c = 1 ELSE (inst.minEl <= c /\ c <= inst.maxEl)>>,
     <<"times-in-range", \A o \in 1..Min(TotalOps(inst), inst.P) : \A m \in Elig(inst, o) :
            inst.minPT <= inst.pt[m][o] /\ inst.pt[m][o] <= inst.maxPT>>,
     \* job shop with one-to-one machine map: every job visits every machine exactly once
     <<"one-to-one", inst.one2one => \A j \in 1..inst.J :
            /\ inst.nops[j] = inst.M
            /\ \A o \in JobOps(inst, j) : Elig(inst, o) # {}
            /\ {MachOf(inst, o) : o \in JobOps(inst, j)} = 1..inst.M>>,
     <<"env-assumption", TotalOps(inst) <= inst.P => EnvFJSP!InstanceOK(inst)>> >>)
InstanceOK_fjsp(inst) == AllHold(Clauses_fjsp(inst))

(* ------------------------------- FFSP ------------------------------ *)
\* S stages with m machines each, N jobs; rt[j][k] running time of job j on (flattened) machine k
Exp_ffsp(inst) == << <<"run_time", <<inst.N, inst.S * inst.m>>, INTG>> >>
Clauses_ffsp(inst) == Frame(inst, Exp_ffsp(inst),
  << <<"times-in-range", \A j \in 1..inst.N : InRange(inst.rt[j], Max(1, inst.minT), inst.maxT)>>,
     <<"env-assumption", EnvFFSP!InstanceOK(inst)>> >>)
InstanceOK_ffsp(inst) == AllHold(Clauses_ffsp(inst))

(* ------------------------------ SMTWTP ----------------------------- *)
\* due0, w0, p0: N+1 entries, entry 1 is the dummy start job; d, w, p: the N real jobs
Exp_smtwtp(inst) == << <<"job_due_time", <<inst.N + 1>>, FL>>, <<"job_weight", <<inst.N + 1>>, FL>>,
                       <<"job_process_time", <<inst.N + 1>>, FL>> >>
Clauses_smtwtp(inst) == Frame(inst, Exp_smtwtp(inst),
  << <<"dummy-job-zero", inst.dummy = <<0, 0, 0>> >>,
     <<"due-in-range", InRange(inst.d, inst.dMin, inst.dMax)>>,
     <<"weight-in-range", InRange(inst.w, inst.wMin, inst.wMax)>>,
     <<"process-time-in-range", InRange(inst.p, inst.pMin, inst.pMax)>>,
     <<"env-assumption", EnvSMTWTP!InstanceOK(inst)>> >>)
InstanceOK_smtwtp(inst) == AllHold(Clauses_smtwtp(inst))

(* -------------------------------- FLP ------------------------------ *)
(* K = emitted to_choose, KCfg requested; symErr = max |D - D^T|, diagMax = max |D[i][i]|, dPairMax = largest
   pairwise distance, dInitMin/dInitMax = extremes of the initial "distance to the chosen set" vector
   (no facility chosen yet: must bound every real distance), chosenCnt = number of pre-chosen locations *)
Exp_flp(inst) == << <<"locs", <<inst.N, 2>>, FL>>, <<"orig_distances", <<inst.N, inst.N>>, FL>>,
                    <<"distances", <<inst.N>>, FL>>, <<"chosen", <<inst.N>>, BO>>, <<"to_choose", <<>>, INTG>> >>
Clauses_flp(inst) == Frame(inst, Exp_flp(inst),
  << <<"coords-in-bounds", Coords(inst, inst.xs)>>,
     <<"quota", inst.K = inst.KCfg /\ 1 <= inst.K /\ inst.K <= inst.N>>,
     <<"distances-symmetric", inst.symErr <= TolF /\ inst.diagMax = 0>>,
     <<"initial-distance-bounds", inst.dInitMin = inst.dInitMax /\ inst.dInitMin + TolF >= inst.dPairMax>>,
     <<"nothing-chosen", inst.chosenCnt = 0>> >>)
InstanceOK_flp(inst) == AllHold(Clauses_flp(inst))

(* -------------------------------- MCP ------------------------------ *)
\* N sets, M items, mem[a] = row of set a (0 = padding), w integer weights (wInt), K sets to choose
Exp_mcp(inst) == << <<"membership", <<inst.N, inst.maxSz>>, FL>>, <<"weights", <<inst.M>>, FL>>,
                    <<"n_sets_to_choose", <<1>>, FL>> >>
SetItems(inst, a) == {inst.mem[a][k] : k \in DOMAIN inst.mem[a]} \ {0}
Clauses_mcp(inst) == Frame(inst, Exp_mcp(inst),
  << <<"items-in-range", \A a \in 1..inst.N : InRange(inst.mem[a], 0, inst.M)>>,
     <<"no-repeated-item", \A a \in 1..inst.N : \A k, l \in DOMAIN inst.mem[a] :
            (k # l /\ inst.mem[a][k] # 0) => inst.mem[a][k] # inst.mem[a][l]>>,
     <<"set-size-in-range", \A a \in 1..inst.N : LET c == Cardinality(SetItems(inst, a)) IN 1 <= c /\ c <= inst.maxSz>>,
     <<"weights-integral", inst.wInt>>,
     <<"weights-in-range", InRange(inst.w, inst.minW, inst.maxW)>>,
     <<"quota", inst.K = inst.KCfg /\ 1 <= inst.K /\ inst.K <= inst.N>>,
     <<"env-assumption", EnvMCP!InstanceOK(inst)>> >>)
InstanceOK_mcp(inst) == AllHold(Clauses_mcp(inst))

(* ---------------------------- DPP / MDPP --------------------------- *)
(* size x size grid, N = size^2 cells 0..N-1; probes = probe cells, avail0 = cells offered by the generated mask,
   keepout = cells neither offered nor probe, K = max_decaps, kMin/kMax keep-out count range, pMin/pMax probe
   count range, gridErr = max deviation of locs from the normalised grid                                   *)
Exp_dpp(inst) == << <<"locs", <<inst.N, 2>>, FL>>,
                    IF inst.variant = "dpp" THEN <<"probe", <<1>>, INTG>> ELSE <<"probe", <<inst.N>>, BO>>,
                    <<"action_mask", <<inst.N>>, BO>> >>
Clauses_dpp(inst) == Frame(inst, Exp_dpp(inst),
  << <<"grid", inst.N = inst.size * inst.size /\ inst.gridErr <= TolF>>,
     <<"probes-on-grid", ToSetU(inst.probes) \subseteq 0..(inst.N - 1)>>,
     <<"probe-count", Len(inst.probes) >= Max(1, inst.pMin) /\ Len(inst.probes) <= inst.pMax>>,
     <<"probe-not-offered", ToSetU(inst.probes) \cap ToSetU(inst.avail0) = {}>>,
     \* the generator draws the keep-out cells over all cells: some may coincide with probes
     <<"keepout-count", Len(inst.keepout) <= inst.kMax /\ Len(inst.keepout) + Len(inst.probes) >= inst.kMin>>,
     <<"quota-feasible", inst.K >= 1 /\ Len(inst.avail0) >= inst.K>>,
     <<"env-assumption", EnvDPP!InstanceOK(inst)>> >>)
InstanceOK_dpp(inst) == AllHold(Clauses_dpp(inst))

(* ------------------------------ dispatch --------------------------- *)
ClausesOf(inst) ==
  CASE inst.fam = "tsp" -> Clauses_tsp(inst)       [] inst.fam = "atsp" -> Clauses_atsp(inst)
    [] inst.fam = "cvrp" -> Clauses_cvrp(inst)     [] inst.fam = "cvrptw" -> Clauses_cvrptw(inst)
    [] inst.fam = "op" -> Clauses_op(inst)         [] inst.fam = "pctsp" -> Clauses_pctsp(inst)
    [] inst.fam = "pdp" -> Clauses_pdp(inst)       [] inst.fam = "mtsp" -> Clauses_mtsp(inst)
    [] inst.fam = "svrp" -> Clauses_svrp(inst)     [] inst.fam = "mdcpdp" -> Clauses_mdcpdp(inst)
    [] inst.fam = "mtvrp" -> Clauses_mtvrp(inst)   [] inst.fam = "fjsp" -> Clauses_fjsp(inst)
    [] inst.fam = "ffsp" -> Clauses_ffsp(inst)     [] inst.fam = "smtwtp" -> Clauses_smtwtp(inst)
    [] inst.fam = "flp" -> Clauses_flp(inst)       [] inst.fam = "mcp" -> Clauses_mcp(inst)
    [] inst.fam = "dpp" -> Clauses_dpp(inst)
InstanceOK(inst) == AllHold(ClausesOf(inst))
=============================================================================
