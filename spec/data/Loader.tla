------------------------------- MODULE Loader -------------------------------
(* C17 -- datasets, collation and baseline wrapping as a state machine.
   Items are identified by tags 1..n.  A data loader over a dataset of n items
   with batch size b visits the items in the order `perm` (identity unless
   shuffling) and delivers them in consecutive batches; the last batch may be
   partial.  `extra` (the greedy-rollout baseline value) is a per-item value
   attached BEFORE loading: it must travel with its item.
   The baseline values themselves are computed by evaluating the items in
   evaluation batches of size e (in dataset order) and concatenating.          *)
EXTENDS Naturals, Sequences, FiniteSets, TLC

CONSTANTS MaxN, Shuffle      \* Shuffle \in BOOLEAN
VARIABLES n, b, e, perm, pos, batches, extraOf
vars == <<n, b, e, perm, pos, batches, extraOf>>

F(tag) == 10 * tag + 1                       \* the (injective) value the stub baseline policy assigns to item `tag`
Perms(k) == {p \in [1..k -> 1..k] : \A i, j \in 1..k : i # j => p[i] # p[j]}
RECURSIVE Flat(_)
Flat(s) == IF s = <<>> THEN <<>> ELSE Head(s) \o Flat(Tail(s))
Min(x, y) == IF x <= y THEN x ELSE y

\* RolloutBaseline.rollout: evaluation batches of size e in dataset order, results concatenated
RECURSIVE EvalChunks(_, _, _)
EvalChunks(k, from, ee) == IF from > k THEN <<>>
                           ELSE <<[i \in 1..Min(ee, k - from + 1) |-> F(from + i - 1)]>> \o EvalChunks(k, from + ee, ee)
Rollout(k, ee) == Flat(EvalChunks(k, 1, ee))

Init == /\ n \in 1..MaxN /\ b \in 1..(MaxN + 1) /\ e \in 1..(MaxN + 1)
        /\ perm \in (IF Shuffle THEN Perms(n) ELSE {[i \in 1..n |-> i]})
        /\ pos = 0 /\ batches = <<>>
        /\ extraOf = Rollout(n, e)              \* wrap_dataset: dataset.add_key("extra", rollout rewards)
\* one iteration of the data loader: the next min(b, remaining) items in loader order, each with ITS extra
NextBatch == /\ pos < n
             /\ LET k == Min(b, n - pos) IN
                  /\ batches' = Append(batches, [i \in 1..k |-> <<perm[pos + i], extraOf[perm[pos + i]]>>])
                  /\ pos' = pos + k
             /\ UNCHANGED <<n, b, e, perm, extraOf>>
Next == NextBatch
Spec == Init /\ [][Next]_vars

Done == pos = n
Tags == [i \in 1..Len(Flat(batches)) |-> Flat(batches)[i][1]]
\* no loss, no duplication, loader order (identity when not shuffling)
Exactly == Done => Tags = perm
\* the value attached to item i is the baseline policy's reward on item i, whatever e is
ExtraIsOwn == \A k \in DOMAIN batches : \A j \in DOMAIN batches[k] : batches[k][j][2] = F(batches[k][j][1])
\* all batches are full except possibly the last
Sizes == \A k \in DOMAIN batches : Len(batches[k]) = b \/ (k = Len(batches) /\ Done /\ Len(batches[k]) = n - (k - 1) * b)
Emit == Done => PrintT(<<"D", n, b, e, perm, batches>>)
=============================================================================
